"""Checks decided on compiled networks executed by the runtime / driver / NPU peers (World N)."""
import copy

from . import check, netgen, netsim, seeds

SIM_COUNTERS = ("schedules", "steps", "kernel_ops", "dma_ops", "jobs", "overlap_states", "burst_splits", "kernel_overlap_jobs",
                "cpu_ops", "npu_ops", "states", "issue_blocked_on_wait", "interleavings")


class NetCheck(check.Check):
    profile = "mixed"
    n_swarm = {"quick": 3, "thorough": 8}
    extremes = {"quick": False, "thorough": True}
    props = ()  # properties whose violations this check owns
    components = {"real": ["ethosu.vela compiler (whole pipeline incl. mlw_codec built from /repo)"],
                  "model": ["Ethos-U driver payload parser", "NPU register file / footprints / async engine", "TFLM arena runtime (tag level)"],
                  "stub": []}
    assumptions = ["NPU concurrency rules and footprints of DESIGN.md 3.5 (model of the hardware contract, no silicon in the sandbox)",
                   "hwspec constants transcribed from the pinned tree"]
    rule = ("recipes drawn by netgen swarm profile '%s' x option draw (accelerator, memory mode, optimise, arena cache, allocator, alignment, "
            "blockdep); each compiled by the real compiler and executed on the peers under the sequential schedule plus seeded async "
            "policies; distinct = digest(recipe, options); non-trivial = compiled and at least one NPU kernel operation executed")

    def __init__(self):
        if "%s" in self.rule:
            self.rule = self.rule % self.profile

    def own(self, v):
        return v.get("prop") in (self.props or (self.pid,))

    def gen_case(self, seed, i, tier):
        r = seeds.rng(seed, self.pid, "case", i)
        recipe = netgen.gen_recipe(r, profile=self.profile_for(r))
        opts, _ = self.gen_options(r)
        return dict(recipe=recipe, opts=opts, seed=seeds.derive(seed, self.pid, "sched", i), n_swarm=self.n_swarm[tier], extremes=self.extremes[tier])

    def profile_for(self, r):
        return self.profile

    def gen_options(self, r):
        return netgen.gen_options(r)

    def post(self, desc, res, out):
        """hook: add property-specific artefact checks; may append to out['viol']"""

    def run_case(self, desc):
        res = netsim.run_recipe(desc["recipe"], desc["opts"], desc["seed"], desc["n_swarm"], desc["extremes"])
        out = dict(viol=[], counters={}, outcome=res["status"], key=seeds.digest([desc["recipe"], desc["opts"]]), nontrivial=False, evaluations=1)
        if res["status"] == "builderr":
            raise RuntimeError("netgen produced an inconsistent recipe: " + res["msg"])
        if res["status"] != "compiled":
            out["counters"]["not_compiled"] = 1
            out["compile"] = res.get("compile")
            return out
        st = res["stats"]
        out["evaluations"] = max(1, st["schedules"])
        out["nontrivial"] = st["kernel_ops"] > 0
        out["counters"] = {k: st[k] for k in SIM_COUNTERS if k in st}
        out["counters"]["fault_dma_or_kernel_stall_policies"] = desc["n_swarm"] + (8 if desc["extremes"] else 0)
        out["counters"]["probe"] = self.probes(res)
        layers = [L["op"] for L in desc["recipe"]["layers"]]
        out["counters"]["op_kind"] = {k: 1 for k in set(layers)}  # compiled networks that contain the source operator
        om = res.get("model")
        if om is not None:
            out["counters"]["probe"]["variable_state_tensors_on_npu"] = int(any(getattr(t, "is_variable", False) for t in om.tensors) and st["npu_ops"] > 0)
        for v in res["viol"]:
            v = dict(v)
            v["sig"] = dict(oracle=v.get("oracle"), kind=v.get("kind"))
            v["layers"] = layers
            out["viol"].append(v)
        self.post(desc, res, out)
        out["sample"] = dict(layers=layers, input=desc["recipe"]["inputs"][0], options=desc["opts"], npu_ops=st["npu_ops"], cpu_ops=st["cpu_ops"],
                             kernel_ops=st["kernel_ops"], dma_ops=st["dma_ops"], schedules=st["schedules"], steps=st["steps"])
        return out

    def probes(self, res):
        p = {}
        st = res["stats"]
        p["dma_and_kernel_in_flight"] = int(st["overlap_states"] > 0)
        p["two_kernels_in_flight"] = int(st["max_kernel_inflight"] >= 2)
        p["two_dma_in_flight"] = int(st["max_dma_inflight"] >= 2)
        p["kernel_job_overlap"] = int(st["kernel_overlap_jobs"] > 0)
        p["cpu_and_npu_ops"] = int(st["cpu_ops"] > 0 and st["npu_ops"] > 0)
        p["several_npu_subgraphs"] = int(st["npu_ops"] > 1)
        p["aliased_outputs"] = int(st.get("aliased_outputs", 0) > 0)
        p["partially_written_outputs"] = int(st.get("partially_written_outputs", 0) > 0)
        p["t1_tensor_identity_attached"] = int(st.get("t1_streams", 0) > 0)
        p["t1_tensor_identity_missing"] = int(st.get("t1_streams", 0) < st["npu_ops"])
        for ent in res["plan"].programs.values():
            if ent["prep"] is None:
                continue
            for it in ent["prep"].prog:
                if getattr(it, "is_kernel", False):
                    p["blockdep_%d" % it.blockdep] = 1
                    if it.uses_lut:
                        p["lut_op"] = 1
                    if it.ncores == 2 and it.weights:
                        p["two_core_weights"] = 1
                    if it.ifm.h0 < it.ih or it.ifm.w0 < it.iw or it.ofm.h0 < it.oh or it.ofm.w0 < it.ow:
                        p["multi_tile_fm"] = 1
                    if it.up:
                        p["upscale"] = 1
                    if any(w[0] != 0 for w in it.weights):
                        p["buffered_weights"] = 1
                    if len(it.jobs) > len(it.blocks):
                        p["depth_or_subkernel_subjobs"] = 1
        return p

    def minimise(self, desc, sig):
        def fails(recipe):
            d = dict(desc, recipe=recipe)
            return self.still_fails(d, sig)

        rec = netgen.minimise_recipe(copy.deepcopy(desc["recipe"]), fails, budget=40)
        d = dict(desc, recipe=rec)
        # options: try dropping optional flags
        opts = list(d["opts"])
        for flag in ("--optimise", "--arena-cache-size", "--tensor-allocator", "--cpu-tensor-alignment", "--max-block-dependency",
                     "--hillclimb-max-iterations"):
            if flag in opts:
                i = opts.index(flag)
                cand = opts[:i] + opts[i + 2:]
                if self.still_fails(dict(d, opts=cand), sig):
                    opts = cand
        d["opts"] = opts
        return d


class C02(NetCheck):
    pid = "C02"
    profile = "mixed"
    quick = dict(cases=3500, budget=90, timeout=120)
    thorough = dict(cases=60000, budget=1200, timeout=300)

    def gen_options(self, r):
        # emphasis: small arena caches and Dedicated SRAM
        opts, cfg = netgen.gen_options(r)
        if r.random() < 0.5 and "--arena-cache-size" not in opts:
            opts += ["--arena-cache-size", str(r.choice([8192, 12000, 16384, 24000, 40000, 65536]))]
        return opts, cfg

    def post(self, desc, res, out):
        # artefact invariant: in Dedicated-SRAM (spilling) modes the published fast-scratch extent <= configured arena cache size
        opts = desc["opts"]
        if netsim.is_spilling(opts):
            cache = netsim.opt_value(opts, "--arena-cache-size")
            if cache is None:
                cache = 384 * 1024  # default of the --arena-cache-size option
            if cache is not None:
                for e in res["plan"].eops.values():
                    fs = e["fast_t"].elems()
                    out["counters"].setdefault("probe", {})["spilling_checked"] = 1
                    if fs > int(cache):
                        rounding_only = fs == -(-int(cache) // 16) * 16
                        sig = dict(oracle="fast_scratch_exceeds_arena_cache", rounding_only=rounding_only)
                        extra = {}
                        if not rounding_only:
                            # context for triage: does even the minimum-memory schedule (--optimise Size) of this network need
                            # more than the configured cache, i.e. does no schedule exist that would fit?
                            o2 = [x for x in opts]
                            if "--optimise" in o2:
                                i = o2.index("--optimise")
                                del o2[i:i + 2]
                            o2 += ["--optimise", "Size"]
                            try:
                                cr2 = netsim.compile_bytes(res["src"], o2, t1=False)
                                from . import artefact
                                fs2 = max(e2["fast_t"].elems() for e2 in artefact.ethosu_ops(artefact.load(cr2["out_bytes"])))
                                sig["min_schedule_also_exceeds"] = bool(fs2 > int(cache))
                                extra["min_schedule_fast"] = int(fs2)
                            except Exception as ex:  # no second artefact: leave the context out (never matches a recorded finding)
                                extra["min_schedule_error"] = repr(ex)[:120]
                        out["viol"].append(dict(prop="C02", oracle="fast_scratch_exceeds_arena_cache", fast=fs, cache=int(cache), sig=sig, **extra))


class C03(NetCheck):
    pid = "C03"
    quick = dict(cases=2500, budget=90, timeout=120)
    thorough = dict(cases=50000, budget=1200, timeout=300)

    def profile_for(self, r):
        return r.choice(["mixed", "stripes", "lut", "cpu_mix"])


class C04net(NetCheck):
    pid = "C04"
    quick = dict(cases=1000, budget=80, timeout=120)
    thorough = dict(cases=20000, budget=1200, timeout=300)
    n_swarm = {"quick": 6, "thorough": 16}
    extremes = {"quick": True, "thorough": True}

    def profile_for(self, r):
        return r.choice(["mixed", "stripes", "lut", "npu_only"])


class C12(NetCheck):
    pid = "C12"
    quick = dict(cases=4000, budget=90, timeout=120)
    thorough = dict(cases=80000, budget=1200, timeout=300)
    n_swarm = {"quick": 1, "thorough": 2}

    def profile_for(self, r):
        return r.choice(["cpu_mix", "cpu_mix", "mixed"])

    def gen_options(self, r):
        opts, cfg = netgen.gen_options(r)
        if "--cpu-tensor-alignment" not in opts and r.random() < 0.3:  # alignment is one of the quantities of the property
            opts += ["--cpu-tensor-alignment", str(r.choice([32, 64, 128, 256, 512]))]
        return opts, cfg

    def post(self, desc, res, out):
        """Artefact-level halves of the property, evaluated on the plan the simulated runtime has just executed:
        (b) requested CPU tensor alignment, (c) scratch tensor at offset zero spanning the operator's own inputs/outputs and
        every arena byte its stream touched, (d) reported SRAM/DRAM figures (summary CSV and console) >= the extent the plan needs."""
        import re

        plan = res["plan"]
        m = plan.m
        opts = desc["opts"]
        layers = [L["op"] for L in desc["recipe"]["layers"]]
        pr = out["counters"].setdefault("probe", {})

        def V(oracle, **kw):
            out["viol"].append(dict(prop="C12", oracle=oracle, layers=layers, sig=dict(oracle=oracle, kind=kw.pop("kind", None)), **kw))

        align = int(netsim.opt_value(opts, "--cpu-tensor-alignment", 16))
        pr["alignment_gt_16"] = int(align > 16)
        scratch_like = set()
        for e in plan.eops.values():
            scratch_like.add(e["scratch_t"].idx)
            scratch_like.add(e["fast_t"].idx)
        n_checked = 0
        for t in m.tensors:
            o = plan.offsets[t.idx]
            if o < 0:
                continue
            n_checked += 1
            if o % align:
                V("cpu_tensor_misaligned", tensor=t.idx, tname=t.name, offset=int(o), alignment=align, kind="scratch" if t.idx in scratch_like else None)
        out["counters"]["arena_tensors_checked"] = n_checked
        for oi, e in sorted(plan.eops.items()):
            so = plan.offsets[e["scratch_t"].idx]
            ssize = e["scratch_t"].elems()
            if so != 0:
                V("scratch_not_at_offset_zero", op=oi, offset=int(so))
                continue
            for what, lst in (("input", e["fm_inputs"]), ("output", e["outputs"])):
                for ti in lst:
                    o = plan.offsets[ti]
                    if o < 0:
                        continue  # reported by the runtime peer (npu_output_not_in_arena / input_not_in_arena)
                    if o + m.tensors[ti].nbytes() > ssize:
                        V("scratch_does_not_span_operand", op=oi, what=what, tensor=ti, end=int(o + m.tensors[ti].nbytes()), scratch=int(ssize))
            pr["scratch_span_checked"] = 1
        # (d) reported figures
        spilling = netsim.is_spilling(opts)
        fast = set(e["fast_t"].idx for e in plan.eops.values()) if spilling else set()  # lives in its own SRAM, not in the arena
        need_arena = max([plan.offsets[t.idx] + t.nbytes() for t in m.tensors if plan.offsets[t.idx] >= 0 and t.idx not in fast] or [0])
        need_arena = max(need_arena, res["facts"].get("arena_touch_max", 0) or 0)
        need = {}
        if spilling:
            need["dram"] = need_arena
            need["sram"] = max([e["fast_t"].elems() for e in plan.eops.values()] or [0])
        else:
            need["sram"] = need_arena
        summ = res.get("summary") or {}
        cons = res.get("console") or ""
        for area, nbytes in need.items():
            if nbytes <= 0:
                continue
            col = summ.get(area + "_memory_used")
            if col is not None:
                pr["csv_memory_checked"] = 1
                if float(col) * 1024.0 + 0.5 < nbytes:
                    V("reported_memory_below_plan", where="summary_csv", area=area, reported_bytes=float(col) * 1024.0, needed_bytes=int(nbytes), kind=area)
            mm = re.search(r"^Total %s used\s+([0-9.]+) KiB" % area.upper(), cons, re.M)
            if mm:
                pr["console_memory_checked"] = 1
                if float(mm.group(1)) + 0.005 + 1e-9 < nbytes / 1024.0:  # printed with two decimals
                    V("reported_memory_below_plan", where="console", area=area, reported_kib=float(mm.group(1)), needed_bytes=int(nbytes), kind=area)


# ======================================================================================================== C11
NEVER_NPU = {"CUSTOM", "DEQUANTIZE", "FLOOR", "CEIL", "NEG", "SIN", "GATHER", "CAST", "ROUND"}


def _freeze(v):
    import numpy as np

    if isinstance(v, np.ndarray):
        return tuple(v.tolist())
    if isinstance(v, (list, tuple)):
        return tuple(_freeze(x) for x in v)
    if isinstance(v, dict):
        return tuple(sorted((k, _freeze(x)) for k, x in v.items()))
    return v


def _opt_norm(o):
    """options table as a comparable value (field-wise through the schema table).  A table whose fields all have their
    schema default is the same value as an absent table for every flatbuffer reader, so both normalise to None."""
    from .tflschema import TABLES

    if o is None:
        return None
    name, d = o
    defaults = {f[1]: f[3] for f in TABLES.get(name, [])}
    items = []
    for k, v in d.items():
        if v is None:
            continue
        fv = _freeze(v)
        dv = defaults.get(k)
        if not isinstance(fv, tuple) and (fv == dv or (isinstance(fv, bool) and fv == bool(dv))):
            continue
        items.append((k, fv))
    return (name, tuple(sorted(items))) if items else None


def _tensor_sig(m, ti):
    if ti < 0:
        return ("absent",)
    t = m.tensors[ti]
    q = (tuple(t.scale), tuple(t.zp), t.qdim) if t.scale else None
    if q is not None and (getattr(t, "qmin", None) or getattr(t, "qmax", None)):
        q = q + (tuple(t.qmin or ()), tuple(t.qmax or ()))  # the optional real-valued range is part of the quantisation parameters
    if t.data is not None:
        import hashlib

        return ("const", tuple(t.shape), t.type, q, hashlib.sha256(t.data).hexdigest()[:16])
    if getattr(t, "is_variable", False):
        return ("var", t.name, tuple(t.shape), t.type, q, "variable")
    return ("var", t.name, tuple(t.shape), t.type, q)


def _op_sig(m, op, with_names=True, folded=None):
    """operator as a comparable value; operand wiring is compared up to tensor renumbering/renaming: constants by content,
    variables by shape, type and quantisation.  folded: {tensor index: constant signature} for operands the compiler may have
    folded into constants (results of SHAPE operators)"""
    def ts(i):
        if folded and i in folded:
            return folded[i]
        s_ = _tensor_sig(m, i)
        if not with_names and s_[0] == "var":
            return ("var",) + s_[2:]
        return s_

    return (op.code, op.custom, op.version, _opt_norm(op.options), op.custom_options, tuple(ts(i) for i in op.inputs), tuple(ts(i) for i in op.outputs),
            tuple(ts(i) for i in (getattr(op, "intermediates", None) or [])))


class C11(NetCheck):
    pid = "C11"
    n_swarm = {"quick": 0, "thorough": 0}
    extremes = {"quick": False, "thorough": False}
    quick = dict(cases=3000, budget=90, timeout=120)
    thorough = dict(cases=60000, budget=1200, timeout=300)
    rule = ("netgen recipes biased to CPU/NPU mixes (third-party custom ops, float islands, GATHER/TRANSPOSE, unsupported strides, several outputs, duplicated "
            "tensor names) x option draw; source and output files are both loaded with the plain flatbuffer parser and the output also with Vela's own "
            "reader; distinct = digest(recipe, options); non-trivial = compiled with >= 1 operator left on the CPU or >= 1 Ethos-U operator")
    components = {"real": ["whole compiler incl. tflite_reader / tflite_writer / extract_npu_subgraphs", "model_reader.read_model on the output file"],
                  "model": ["plain flatbuffer parser (verif.fbs)", "runtime peer executing the operator list in file order (tag level)"], "stub": []}

    def profile_for(self, r):
        return r.choice(["cpu_mix", "cpu_mix", "mixed"])

    def post(self, desc, res, out):
        from . import artefact

        src = artefact.load(res["src"])
        om = res["model"]
        layers = [L["op"] for L in desc["recipe"]["layers"]]

        def V(oracle, **kw):
            out["viol"].append(dict(prop="C11", oracle=oracle, layers=layers, sig=dict(oracle=oracle, what=kw.get("what")), **kw))

        # 1. interface: order, names, shapes, types, quantisation
        for what, a, b in (("inputs", src.inputs, om.inputs), ("outputs", src.outputs, om.outputs)):
            if len(a) != len(b):
                V("interface_count", what=what, src=len(a), out=len(b))
                continue
            for k, (i, j) in enumerate(zip(a, b)):
                sa, sb = _tensor_sig(src, i), _tensor_sig(om, j)
                if sa != sb:
                    V("interface_differs", what=what, index=k, src=str(sa)[:200], out=str(sb)[:200])
        # 2. CPU-resident operators verbatim, exactly once
        dup = desc["recipe"].get("dup_names", False)
        cpu_out = [o for o in om.ops if not (o.code == artefact.CUSTOM and o.custom == "ethos-u")]
        src_sigs = {}
        # a SHAPE operator is folded into a constant at compile time: its consumers then take that constant as operand
        import hashlib
        import numpy as np

        folded = {}
        for o in src.ops:
            if o.name == "SHAPE" and o.inputs and o.outputs:
                t_in, t_out = src.tensors[o.inputs[0]], src.tensors[o.outputs[0]]
                data = np.array(t_in.shape, dtype=np.int64 if t_out.type == "INT64" else np.int32).tobytes()
                folded[o.outputs[0]] = ("const", tuple(t_out.shape), t_out.type, None, hashlib.sha256(data).hexdigest()[:16])
        for o in src.ops:
            src_sigs.setdefault(_op_sig(src, o, False), []).append(o)
            if folded and any(i in folded for i in o.inputs):
                src_sigs.setdefault(_op_sig(src, o, False, folded), []).append(o)
        used = set()
        for o in cpu_out:
            s = _op_sig(om, o, False)
            cands = [x for x in src_sigs.get(s, []) if x.idx not in used]
            if not cands:
                # find the closest source operator to say what changed
                same_code = [x for x in src.ops if (x.code, x.custom) == (o.code, o.custom)]
                what = "no_such_operator" if not same_code else "operator_changed"
                detail = None
                if same_code:
                    x = same_code[0]
                    sx = _op_sig(src, x, False)
                    names = ("code", "custom", "version", "options", "custom_options", "inputs", "outputs", "intermediates")
                    detail = [n for n, p, q_ in zip(names, sx, s) if p != q_]
                V("cpu_operator_not_verbatim", what=what, opname=o.name, changed=detail)
            else:
                used.add(cands[0].idx)
        # every source operator that can never run on the NPU must still be there
        out_names = {}
        for o in cpu_out:
            out_names[(o.code, o.custom)] = out_names.get((o.code, o.custom), 0) + 1
        for o in src.ops:
            kind = o.name.split(":")[0]
            if kind in NEVER_NPU and o.idx not in used:
                if self._contributes(src, o):
                    V("cpu_operator_missing", what=kind, opname=o.name)
        # 4. Vela's own reader accepts the file
        import tempfile
        import os
        from . import compile as C

        with tempfile.TemporaryDirectory(prefix="verif-r-") as d:
            p = os.path.join(d, "o.tflite")
            open(p, "wb").write(res["out_bytes"])
            from ethosu.vela import model_reader

            r_ = C.vela_call(model_reader.read_model, p, model_reader.ModelReaderOptions())
            if r_["exc"] or (r_["exc_type"] == "SystemExit"):
                V("vela_reader_rejects_output", what=r_["exc_type"], msg=r_["exc_msg"])
        out["counters"].setdefault("probe", {})["cpu_ops_compared"] = int(len(cpu_out) > 0)
        out["counters"]["cpu_ops_matched"] = len(used)
        out["nontrivial"] = True

    @staticmethod
    def _contributes(m, op):
        """does the operator contribute to a model output?"""
        need = set(m.outputs)
        changed = True
        prod = {}
        for o in m.ops:
            for t in o.outputs:
                prod[t] = o
        seen = set()
        stack = list(need)
        while stack:
            t = stack.pop()
            if t in seen:
                continue
            seen.add(t)
            o = prod.get(t)
            if o is not None:
                if o is op:
                    return True
                if o.name == "SHAPE":
                    continue  # its result depends on the (static) shape of its operand only: whatever computes the operand's VALUES does not contribute
                stack.extend(i for i in o.inputs if i >= 0)
        return False
