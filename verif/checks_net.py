"""Checks decided on compiled networks executed by the runtime / driver / NPU peers (World N)."""
import copy

from . import check, netgen, netsim, seeds

SIM_COUNTERS = ("schedules", "steps", "kernel_ops", "dma_ops", "jobs", "overlap_states", "burst_splits", "kernel_overlap_jobs",
                "cpu_ops", "npu_ops", "states", "issue_blocked_on_wait", "interleavings")


class NetCheck(check.Check):
    profile = "mixed"
    n_swarm = {"quick": 3, "thorough": 8}
    extremes = {"quick": False, "thorough": True}
    props = ()  # properties whose violations this check owns
    components = {"real": ["ethosu.vela compiler (whole pipeline incl. mlw_codec built from /repo)"],
                  "model": ["Ethos-U driver payload parser", "NPU register file / footprints / async engine", "TFLM arena runtime (tag level)"],
                  "stub": []}
    assumptions = ["NPU concurrency rules and footprints of DESIGN.md 3.5 (model of the hardware contract, no silicon in the sandbox)",
                   "hwspec constants transcribed from the pinned tree"]
    rule = ("recipes drawn by netgen swarm profile '%s' x option draw (accelerator, memory mode, optimise, arena cache, allocator, alignment, "
            "blockdep); each compiled by the real compiler and executed on the peers under the sequential schedule plus seeded async "
            "policies; distinct = digest(recipe, options); non-trivial = compiled and at least one NPU kernel operation executed")

    def __init__(self):
        self.rule = self.rule % self.profile

    def own(self, v):
        return v.get("prop") in (self.props or (self.pid,))

    def gen_case(self, seed, i, tier):
        r = seeds.rng(seed, self.pid, "case", i)
        recipe = netgen.gen_recipe(r, profile=self.profile_for(r))
        opts, _ = self.gen_options(r)
        return dict(recipe=recipe, opts=opts, seed=seeds.derive(seed, self.pid, "sched", i), n_swarm=self.n_swarm[tier], extremes=self.extremes[tier])

    def profile_for(self, r):
        return self.profile

    def gen_options(self, r):
        return netgen.gen_options(r)

    def post(self, desc, res, out):
        """hook: add property-specific artefact checks; may append to out['viol']"""

    def run_case(self, desc):
        res = netsim.run_recipe(desc["recipe"], desc["opts"], desc["seed"], desc["n_swarm"], desc["extremes"])
        out = dict(viol=[], counters={}, outcome=res["status"], key=seeds.digest([desc["recipe"], desc["opts"]]), nontrivial=False, evaluations=1)
        if res["status"] == "builderr":
            raise RuntimeError("netgen produced an inconsistent recipe: " + res["msg"])
        if res["status"] != "compiled":
            out["counters"]["not_compiled"] = 1
            out["compile"] = res.get("compile")
            return out
        st = res["stats"]
        out["evaluations"] = max(1, st["schedules"])
        out["nontrivial"] = st["kernel_ops"] > 0
        out["counters"] = {k: st[k] for k in SIM_COUNTERS if k in st}
        out["counters"]["fault_dma_or_kernel_stall_policies"] = desc["n_swarm"] + (8 if desc["extremes"] else 0)
        out["counters"]["probe"] = self.probes(res)
        layers = [L["op"] for L in desc["recipe"]["layers"]]
        for v in res["viol"]:
            v = dict(v)
            v["sig"] = dict(oracle=v.get("oracle"), kind=v.get("kind"))
            v["layers"] = layers
            out["viol"].append(v)
        self.post(desc, res, out)
        out["sample"] = dict(layers=layers, input=desc["recipe"]["inputs"][0], options=desc["opts"], npu_ops=st["npu_ops"], cpu_ops=st["cpu_ops"],
                             kernel_ops=st["kernel_ops"], dma_ops=st["dma_ops"], schedules=st["schedules"], steps=st["steps"])
        return out

    def probes(self, res):
        p = {}
        st = res["stats"]
        p["dma_and_kernel_in_flight"] = int(st["overlap_states"] > 0)
        p["two_kernels_in_flight"] = int(st["max_kernel_inflight"] >= 2)
        p["two_dma_in_flight"] = int(st["max_dma_inflight"] >= 2)
        p["kernel_job_overlap"] = int(st["kernel_overlap_jobs"] > 0)
        p["cpu_and_npu_ops"] = int(st["cpu_ops"] > 0 and st["npu_ops"] > 0)
        p["several_npu_subgraphs"] = int(st["npu_ops"] > 1)
        p["aliased_outputs"] = int(st.get("aliased_outputs", 0) > 0)
        for ent in res["plan"].programs.values():
            if ent["prep"] is None:
                continue
            for it in ent["prep"].prog:
                if getattr(it, "is_kernel", False):
                    p["blockdep_%d" % it.blockdep] = 1
                    if it.uses_lut:
                        p["lut_op"] = 1
                    if it.ncores == 2 and it.weights:
                        p["two_core_weights"] = 1
                    if it.ifm.h0 < it.ih or it.ifm.w0 < it.iw or it.ofm.h0 < it.oh or it.ofm.w0 < it.ow:
                        p["multi_tile_fm"] = 1
                    if it.up:
                        p["upscale"] = 1
                    if any(w[0] != 0 for w in it.weights):
                        p["buffered_weights"] = 1
                    if len(it.jobs) > len(it.blocks):
                        p["depth_or_subkernel_subjobs"] = 1
        return p

    def minimise(self, desc, sig):
        def fails(recipe):
            d = dict(desc, recipe=recipe)
            return self.still_fails(d, sig)

        rec = netgen.minimise_recipe(copy.deepcopy(desc["recipe"]), fails, budget=40)
        d = dict(desc, recipe=rec)
        # options: try dropping optional flags
        opts = list(d["opts"])
        for flag in ("--optimise", "--arena-cache-size", "--tensor-allocator", "--cpu-tensor-alignment", "--max-block-dependency",
                     "--hillclimb-max-iterations"):
            if flag in opts:
                i = opts.index(flag)
                cand = opts[:i] + opts[i + 2:]
                if self.still_fails(dict(d, opts=cand), sig):
                    opts = cand
        d["opts"] = opts
        return d


class C02(NetCheck):
    pid = "C02"
    profile = "mixed"
    quick = dict(cases=2500, budget=90, timeout=120)
    thorough = dict(cases=60000, budget=1200, timeout=300)

    def gen_options(self, r):
        # emphasis: small arena caches and Dedicated SRAM
        opts, cfg = netgen.gen_options(r)
        if r.random() < 0.5 and "--arena-cache-size" not in opts:
            opts += ["--arena-cache-size", str(r.choice([8192, 12000, 16384, 24000, 40000, 65536]))]
        return opts, cfg

    def post(self, desc, res, out):
        # artefact invariant: in Dedicated-SRAM (spilling) modes the published fast-scratch extent <= configured arena cache size
        opts = desc["opts"]
        if netsim.is_spilling(opts):
            cache = netsim.opt_value(opts, "--arena-cache-size")
            if cache is None:
                cache = 384 * 1024  # default of the --arena-cache-size option
            if cache is not None:
                for e in res["plan"].eops.values():
                    fs = e["fast_t"].elems()
                    out["counters"].setdefault("probe", {})["spilling_checked"] = 1
                    if fs > int(cache):
                        rounding_only = fs == -(-int(cache) // 16) * 16
                        out["viol"].append(dict(prop="C02", oracle="fast_scratch_exceeds_arena_cache", fast=fs, cache=int(cache),
                                                sig=dict(oracle="fast_scratch_exceeds_arena_cache", rounding_only=rounding_only)))


class C03(NetCheck):
    pid = "C03"
    quick = dict(cases=2500, budget=90, timeout=120)
    thorough = dict(cases=50000, budget=1200, timeout=300)

    def profile_for(self, r):
        return r.choice(["mixed", "stripes", "lut", "cpu_mix"])


class C04net(NetCheck):
    pid = "C04"
    quick = dict(cases=1000, budget=80, timeout=120)
    thorough = dict(cases=20000, budget=1200, timeout=300)
    n_swarm = {"quick": 6, "thorough": 16}
    extremes = {"quick": True, "thorough": True}

    def profile_for(self, r):
        return r.choice(["mixed", "stripes", "lut", "npu_only"])


class C12(NetCheck):
    pid = "C12"
    quick = dict(cases=4000, budget=90, timeout=120)
    thorough = dict(cases=80000, budget=1200, timeout=300)
    n_swarm = {"quick": 1, "thorough": 2}

    def profile_for(self, r):
        return r.choice(["cpu_mix", "cpu_mix", "mixed"])
