"""Running the real compiler behind seams.

* ensure_codec(): (re)build ethosu.mlw_codec from /repo's *current* C sources into /verif/.build/<sha>/ (never
  writes into /repo) and load it as sys.modules['ethosu.mlw_codec'].
* bootstrap(): make `ethosu` resolve to /repo's working tree and import the compiler.
* vela_main()/vela_call(): one compilation in this process with fd-level stdout/stderr capture.
* ForkPool: every task runs in a fresh fork of the (pre-imported) parent: no state survives from one task to the
  next, a hang is killed by wall clock and reported as an outcome, results come back over a pipe.
"""
import hashlib
import importlib.machinery
import importlib.util
import io
import os
import pickle
import select
import signal
import subprocess
import sys
import sysconfig
import tempfile
import time
import traceback

REPO = os.environ.get("VERIF_REPO", "/repo")
VERIF = os.path.dirname(os.path.dirname(os.path.abspath(__file__)))
BUILD = os.path.join(VERIF, ".build")
GUARD = "ETHOS_U_VELA_VERIF"


def _codec_sources():
    d = os.path.join(REPO, "ethosu", "mlw_codec")
    return [os.path.join(d, f) for f in ("mlw_encode.c", "mlw_decode.c", "mlw_codecmodule.c")], d


def ensure_codec():
    srcs, d = _codec_sources()
    h = hashlib.sha256()
    for f in sorted(os.listdir(d)):
        if f.endswith((".c", ".h")):
            h.update(f.encode())
            h.update(open(os.path.join(d, f), "rb").read())
    h.update(sys.version.encode())
    out_dir = os.path.join(BUILD, "codec-" + h.hexdigest()[:16])
    so = os.path.join(out_dir, "mlw_codec" + sysconfig.get_config_var("EXT_SUFFIX"))
    if not os.path.exists(so):
        import numpy

        os.makedirs(out_dir, exist_ok=True)
        tmp = so + ".tmp%d" % os.getpid()
        cmd = ["gcc", "-O2", "-shared", "-fPIC", "-DNPY_NO_DEPRECATED_API=NPY_1_9_API_VERSION",
               "-I", sysconfig.get_paths()["include"], "-I", numpy.get_include(), "-I", d, "-o", tmp] + srcs
        p = subprocess.run(cmd, stdout=subprocess.PIPE, stderr=subprocess.STDOUT, text=True)
        if p.returncode != 0:
            raise RuntimeError("mlw_codec build failed:\n" + p.stdout[-4000:])
        os.replace(tmp, so)
    return so


_booted = False


def bootstrap():
    """Import the compiler from /repo's working tree with the freshly built codec.  Idempotent."""
    global _booted
    if _booted:
        return
    os.environ[GUARD] = "1"
    so = ensure_codec()
    if REPO not in sys.path:
        sys.path.insert(0, REPO)
    import ethosu  # namespace package rooted in /repo

    loader = importlib.machinery.ExtensionFileLoader("ethosu.mlw_codec", so)
    spec = importlib.util.spec_from_file_location("ethosu.mlw_codec", so, loader=loader)
    mod = importlib.util.module_from_spec(spec)
    loader.exec_module(mod)
    sys.modules["ethosu.mlw_codec"] = mod
    ethosu.mlw_codec = mod
    import ethosu.vela.vela  # noqa: F401

    f = sys.modules["ethosu.vela.vela"].__file__
    if not os.path.abspath(f).startswith(os.path.abspath(REPO) + os.sep):
        raise RuntimeError(f"ethosu.vela imported from {f}, not from {REPO}")
    _booted = True


class Capture:
    """fd-level capture of stdout+stderr (the stats writer keeps a reference to the real stdout)."""

    def __enter__(self):
        sys.stdout.flush()
        sys.stderr.flush()
        self.tmp = tempfile.TemporaryFile()
        self.o1, self.o2 = os.dup(1), os.dup(2)
        os.dup2(self.tmp.fileno(), 1)
        os.dup2(self.tmp.fileno(), 2)
        self.so, self.se = sys.stdout, sys.stderr
        sys.stdout = io.TextIOWrapper(os.fdopen(os.dup(1), "wb"), write_through=True)
        sys.stderr = sys.stdout
        self.text = ""
        return self

    def __exit__(self, *a):
        try:
            sys.stdout.flush()
            sys.stdout.close()
        except Exception:
            pass
        sys.stdout, sys.stderr = self.so, self.se
        os.dup2(self.o1, 1)
        os.dup2(self.o2, 2)
        os.close(self.o1)
        os.close(self.o2)
        self.tmp.seek(0)
        self.text = self.tmp.read().decode("utf-8", "replace")
        self.tmp.close()
        return False


def exc_site(e):
    tb = traceback.extract_tb(e.__traceback__)
    site = None
    for fr in reversed(tb):
        if "/ethosu/" in fr.filename:
            site = f"{os.path.basename(fr.filename)}:{fr.lineno}:{fr.name}"
            break
    if site is None and tb:
        fr = tb[-1]
        site = f"{os.path.basename(fr.filename)}:{fr.lineno}:{fr.name}"
    return site


def vela_call(fn, *args, **kw):
    """Call fn (a compiler entry point) under capture.  -> dict(rc, exc, exc_type, exc_site, exc_msg, out, ret)."""
    res = dict(rc=None, exc=False, exc_type=None, exc_site=None, exc_msg=None, out="", ret=None)
    with Capture() as cap:
        try:
            res["ret"] = fn(*args, **kw)
            res["rc"] = res["ret"] if isinstance(res["ret"], int) else 0
        except SystemExit as e:
            res["rc"] = e.code if isinstance(e.code, int) else (0 if e.code is None else 1)
            res["exc_type"] = "SystemExit"
            if not isinstance(e.code, int) and e.code is not None:
                print(e.code)
        except BaseException as e:  # noqa
            res["exc"] = True
            res["exc_type"] = type(e).__name__
            res["exc_site"] = exc_site(e)
            res["exc_msg"] = str(e)[:300]
            res["tb"] = "".join(traceback.format_exception(e))[-3000:]
    res["out"] = cap.text
    return res


def vela_main(argv):
    bootstrap()
    from ethosu.vela import vela

    return vela_call(vela.main, list(argv))


# ---------------------------------------------------------------------------------------------------------------
class ForkPool:
    """run(fn, items) -> list of (status, value): status 'ok' | 'exc' (harness exception text) | 'timeout' | 'died'.
    Each item is executed as fn(item) in a fresh fork of the calling process."""

    def __init__(self, workers=None, timeout=120.0):
        self.workers = workers or int(os.environ.get("VERIF_WORKERS", os.cpu_count() or 4))
        self.timeout = timeout

    def run(self, fn, items, on_result=None, deadline=None):
        items = list(items)
        results = [None] * len(items)
        running = {}  # rfd -> (idx, pid, t0, buf)
        nxt = 0
        stop_feeding = False
        while nxt < len(items) or running:
            while not stop_feeding and nxt < len(items) and len(running) < self.workers:
                if deadline is not None and time.time() > deadline:
                    stop_feeding = True
                    break
                r, w = os.pipe()
                sys.stdout.flush()
                sys.stderr.flush()
                pid = os.fork()
                if pid == 0:
                    code = 0
                    try:
                        os.close(r)
                        for fd in list(running):
                            try:
                                os.close(fd)
                            except OSError:
                                pass
                        try:
                            val = ("ok", fn(items[nxt]))
                        except BaseException as e:  # noqa
                            val = ("exc", "".join(traceback.format_exception(e))[-4000:])
                        data = pickle.dumps(val)
                        with os.fdopen(w, "wb") as f:
                            f.write(data)
                    except BaseException:  # noqa
                        code = 3
                    finally:
                        os._exit(code)
                os.close(w)
                running[r] = [nxt, pid, time.time(), bytearray()]
                nxt += 1
            if stop_feeding and not running:
                break
            if not running:
                continue
            rl, _, _ = select.select(list(running), [], [], 0.25)
            now = time.time()
            for fd in rl:
                chunk = os.read(fd, 1 << 20)
                ent = running[fd]
                if chunk:
                    ent[3] += chunk
                    continue
                os.close(fd)
                del running[fd]
                _, st = os.waitpid(ent[1], 0)
                try:
                    results[ent[0]] = pickle.loads(bytes(ent[3]))
                except Exception:
                    results[ent[0]] = ("died", f"exit status {st}")
                if on_result:
                    on_result(ent[0], results[ent[0]])
            for fd in list(running):
                ent = running[fd]
                if now - ent[2] > self.timeout:
                    try:
                        os.kill(ent[1], signal.SIGKILL)
                    except ProcessLookupError:
                        pass
                    os.waitpid(ent[1], 0)
                    os.close(fd)
                    del running[fd]
                    results[ent[0]] = ("timeout", f">{self.timeout}s")
                    if on_result:
                        on_result(ent[0], results[ent[0]])
        return results[:nxt] if stop_feeding else results
