"""Simulated Ethos-U driver: parses the COP1 payload of an `ethos-u` custom operator (peer model for C17)."""
import struct

from . import hwspec as HW


class DriverReject(Exception):
    def __init__(self, oracle, msg):
        super().__init__(msg)
        self.oracle = oracle


def parse_payload(data, acc=None):
    """-> dict(words=list[int], config=(cfg,id), nops=int).  Raises DriverReject with an oracle id on any framing error.
    acc: accelerator name the compilation was asked for (None = do not check the config words)."""
    data = bytes(data)
    if len(data) % 4:
        raise DriverReject("length_not_word_multiple", f"payload length {len(data)} is not a multiple of 4")
    n = len(data) // 4
    w = struct.unpack("<%dI" % n, data)
    if n < 1 or w[0] != HW.FOURCC:
        raise DriverReject("fourcc", "payload does not start with COP1")
    i = 1
    cfg = None
    nops = 0
    while True:
        if i >= n:
            raise DriverReject("no_cmdstream_action", "ran off the payload before a command-stream action")
        tag = w[i] & 0xFF
        reserved = (w[i] >> 8) & 0xFF
        param = w[i] >> 16
        if tag == HW.DA_CONFIG:
            if i + 2 >= n:
                raise DriverReject("truncated_config", "config action truncated")
            if cfg is not None:
                raise DriverReject("duplicate_config", "two config actions")
            cfg = (w[i + 1], w[i + 2])
            i += 3
        elif tag == HW.DA_NOP:
            nops += 1
            i += 1
        elif tag == HW.DA_CMDSTREAM:
            length = (reserved << 16) | param
            i += 1
            if (i * 4) % 16 != 0:
                raise DriverReject("alignment", f"command words start at byte {i * 4}, not 16-byte aligned")
            if n - i != length:
                raise DriverReject("length", f"header declares {length} words, {n - i} follow")
            words = list(w[i:])
            break
        else:
            raise DriverReject("unknown_action", f"unknown driver action {tag} at word {i}")
    if cfg is None:
        raise DriverReject("no_config", "no config action before the command stream")
    if acc is not None:
        if cfg[0] != HW.config_word(acc):
            raise DriverReject("config_word", f"config word {cfg[0]:#x} != {HW.config_word(acc):#x} expected for {acc}")
        if cfg[1] != HW.id_word():
            raise DriverReject("id_word", f"id word {cfg[1]:#x} != {HW.id_word():#x}")
    return dict(words=words, config=cfg, nops=nops)
