"""Determinism self-test of the machinery (DESIGN 4.4): every claimed check is run twice per seed on a small batch -
once as usual (16 workers, harness under PYTHONHASHSEED=0) and once in a fresh interpreter with another hash seed and a
different worker count - and the per-case digests (case description, outcome, every violation with all its details, all
counters) of the two runs are compared line by line.  A difference means some choice does not derive from VERIF_SEED (or the
harness iterates an unordered container): replay and minimisation could then not be trusted.

usage: ./vcheck selftest [--ids C01,C02,...] [--seeds 1,2,3] [--cases N]      exit 0 iff no digest differs
"""
import json
import os
import subprocess
import sys
import tempfile

HERE = os.path.dirname(os.path.dirname(os.path.abspath(__file__)))


def run_once(pid, seed, cases, hashseed, workers, out):
    env = dict(os.environ, VERIF_SEED=str(seed), VERIF_DIGEST_OUT=out, VERIF_EVIDENCE_DIR=os.path.join(HERE, ".scratch", "evidence_selftest"),
               PYTHONHASHSEED=str(hashseed), VERIF_NO_REEXEC="1", VERIF_WORKERS=str(workers), VERIF_BUDGET_S="900")
    p = subprocess.run([sys.executable, os.path.join(HERE, "vcheck"), pid, "--tier", "quick", "--cases", str(cases), "--no-confirm"],
                       env=env, stdout=subprocess.PIPE, stderr=subprocess.STDOUT, text=True, timeout=1800)
    return p.returncode, p.stdout


def main(argv):
    import argparse

    ap = argparse.ArgumentParser()
    ap.add_argument("--ids")
    ap.add_argument("--seeds", default="1,2,3")
    ap.add_argument("--cases", type=int, default=120)
    a = ap.parse_args(argv)
    man = json.load(open(os.path.join(HERE, "MANIFEST.json")))
    ids = a.ids.split(",") if a.ids else [c["property_id"] for c in man["checks"]]
    seeds_ = [int(x) for x in a.seeds.split(",")]
    tmpd = tempfile.mkdtemp(prefix="verif-selftest-")
    bad = 0
    total = cut = 0
    for pid in ids:
        for s in seeds_:
            fa, fb = os.path.join(tmpd, f"{pid}.{s}.a.json"), os.path.join(tmpd, f"{pid}.{s}.b.json")
            ra, oa = run_once(pid, s, a.cases, 0, os.cpu_count() or 4, fa)
            rb, ob = run_once(pid, s, a.cases, 987654321 + s, 5, fb)
            if not (os.path.exists(fa) and os.path.exists(fb)):
                print(f"SELFTEST {pid} seed={s}: no digest file (rc {ra}/{rb}) {oa[-300:]} {ob[-300:]}")
                bad += 1
                continue
            A, B = json.load(open(fa)), json.load(open(fb))
            diff = [i for i, (x, y) in enumerate(zip(A, B)) if x[0] != y[0] or (x[1] != y[1] and "cut" not in (x[1], y[1]))]
            ncut = sum(1 for x, y in zip(A, B) if "cut" in (x[1], y[1]))
            total += len(A)
            cut += ncut
            status = "same" if not diff and len(A) == len(B) else f"DIFFERENT at cases {diff[:8]}"
            print(f"SELFTEST {pid} seed={s}: {len(A)} cases, {ncut} cut by wall clock, exit codes {ra}/{rb}: {status}")
            sys.stdout.flush()
            if diff or len(A) != len(B):
                bad += 1
    import shutil

    shutil.rmtree(tmpd, ignore_errors=True)
    print(f"SELFTEST total cases compared={total} cut={cut} batches_with_differences={bad}")
    return 1 if bad else 0
