"""Programs through the public API: seeded legal NpuOperation lists (explicit JSON workloads) and their materialisation with
ethosu.vela.api classes only."""
import math

from . import hwspec as HW

ACCS = ["Ethos_U55_32", "Ethos_U55_64", "Ethos_U55_128", "Ethos_U55_256", "Ethos_U65_256", "Ethos_U65_512"]
DT_BITS = {"uint8": 8, "int8": 8, "uint16": 16, "int16": 16, "int32": 32}
DT_SIGNED = {"uint8": False, "int8": True, "uint16": False, "int16": True, "int32": True}
DT_RANGE = {"uint8": (0, 255), "int8": (-128, 127), "uint16": (0, 65535), "int16": (-32768, 32767), "int32": (-(1 << 31), (1 << 31) - 1)}


def round_up(a, b):
    return -(-a // b) * b


def fm_bytes(shape, layout, bits):
    h, w, c = shape
    es = bits // 8
    if layout == "NHCWB16":
        return h * w * round_up(c, 16) * es
    return h * w * c * es


def default_strides(shape, layout, bits):
    """(stride_y, stride_x, stride_c) as the hardware registers want them."""
    h, w, c = shape
    es = bits // 8
    if layout == "NHWC":
        return (w * c * es, c * es, es)
    return (es * w * round_up(c, 16), 16 * es, 16 * es * w)


class Pool:
    """Address pool: a few feature-map buffers per (shape, layout, dtype) so that operations frequently share them."""

    def __init__(self, r, regions=(1, 2)):
        self.r = r
        self.next = {reg: 0 for reg in (0, 1, 2)}
        self.bufs = {}
        self.regions = regions
        self.all = []

    def alloc(self, region, nbytes, align=16):
        a = round_up(self.next[region], align)
        self.next[region] = a + round_up(nbytes, 16) + self.r.choice([0, 0, 16, 64])
        return a

    def fm(self, shape, layout, dt, reuse_p=0.7, avoid=()):
        key = (tuple(shape), layout, dt)
        cands = [b for b in self.bufs.get(key, []) if b["id"] not in avoid]
        if cands and self.r.random() < reuse_p:
            return self.r.choice(cands)
        region = self.r.choice(self.regions)
        bits = DT_BITS[dt]
        h, w, c = shape
        tiles = None
        if h >= 2 and self.r.random() < 0.15:
            # two vertical tiles (rolling-buffer style): rows [0,h0) at a0, rows [h0,h) at a2
            h0 = self.r.randint(1, h - 1)
            sy = default_strides(shape, layout, bits)[0]
            a0 = self.alloc(region, h0 * sy)
            a2 = self.alloc(region, (h - h0) * sy)
            tiles = [h0, h0, w, [a0, 0, a2, 0]]
        else:
            a0 = self.alloc(region, fm_bytes(shape, layout, bits))
            tiles = [h, 0, w, [a0, 0, 0, 0]]
        b = dict(id=len(self.all), region=region, shape=list(shape), layout=layout, dt=dt, tiles=tiles)
        self.bufs.setdefault(key, []).append(b)
        self.all.append(b)
        return b


def fm_desc(buf, q):
    return dict(dt=buf["dt"], region=buf["region"], shape=buf["shape"], layout=buf["layout"], tiles=buf["tiles"], q=q, buf=buf["id"])


def rand_q(r, dt):
    lo, hi = DT_RANGE[dt]
    if dt == "int32":
        return [r.choice([1.0, 0.5, 0.01]), 0]
    return [r.choice([0.5, 0.1, 0.05, 0.0123, 1.0, 2.0]), r.choice([0, lo, hi, (lo + hi + 1) // 2, r.randint(lo, hi)]) if DT_BITS[dt] == 8 else 0]


def gen_oplist(r, acc, n_ops=None, dma_p=0.35):
    """-> dict(acc, ops=[...]) : explicit workload."""
    u65 = "U65" in acc
    pool = Pool(r)
    n_ops = n_ops or r.randint(2, 12)
    base_shapes = []
    for _ in range(r.choice([1, 2, 2, 3])):
        base_shapes.append(r.choice([(4, 4, 16), (8, 8, 16), (6, 5, 32), (16, 8, 8), (3, 7, 16), (8, 8, 48), (1, 1, 64), (12, 2, 3), (5, 9, 1), (2, 33, 8), (16, 16, 8), (20, 4, 8), (4, 24, 16)]))
    dts = r.choice([["int8"], ["int8"], ["uint8"], ["int8", "int16"], ["int16"]])
    layouts = r.choice([["NHWC"], ["NHWC", "NHCWB16"], ["NHCWB16"]])
    ops = []
    const_next = [0]
    weight_bufs = []  # (region, addr, len) in region 2 written by DMA
    lut_loaded = set()

    def const_range(n):
        a = round_up(const_next[0], 16)
        const_next[0] = a + n
        return [0, a, n]

    tries = 0
    while len(ops) < n_ops and tries < 200:
        tries += 1
        x = r.random()
        shape = r.choice(base_shapes)
        dt = r.choice(dts)
        layout = r.choice(layouts)
        if x < dma_p:
            kind = r.choice(["fm2fm", "const2fm", "weights", "lut", "lut", "fm_tail"])
            if kind == "fm_tail":
                # only the last rows of a feature map an earlier operation uses are refilled: the transfer conflicts with a part of
                # that operation's address range, not with its start
                cands = [b_ for b_ in pool.all if b_["layout"] == "NHWC" and b_["tiles"][0] == b_["shape"][0] and b_["shape"][0] >= 2]
                if not cands:
                    continue
                b = r.choice(cands)
                bits_ = DT_BITS[b["dt"]]
                sy = default_strides(b["shape"], "NHWC", bits_)[0]
                rows = [k_ for k_ in range(1, b["shape"][0]) if (k_ * sy) % 16 == 0]
                if not rows:
                    continue
                r1 = r.choice(rows)
                n = round_up((b["shape"][0] - r1) * sy, 16)
                ops.append(dict(t="dma", src=const_range(n), dst=[b["region"], b["tiles"][3][0] + r1 * sy]))
                continue
            if kind == "lut":
                slot = r.randrange(8)
                ops.append(dict(t="dma", src=const_range(256), dst=[HW.SHRAM_REGION, HW.ACCEL[HW.API_ACCEL[acc]]["lut_addr"] + 256 * slot]))
                lut_loaded.add(slot)
            elif kind == "weights":
                n = r.choice([64, 256, 1024])
                a = pool.alloc(2, n)
                weight_bufs.append([2, a, n])
                ops.append(dict(t="dma", src=const_range(n), dst=[2, a]))
            else:
                b = pool.fm(shape, layout, dt)
                if len(b["tiles"][3]) and b["tiles"][0] != b["shape"][0]:
                    continue
                n = round_up(fm_bytes(b["shape"], b["layout"], DT_BITS[dt]), 16)
                if kind == "const2fm":
                    ops.append(dict(t="dma", src=const_range(n), dst=[b["region"], b["tiles"][3][0]]))
                else:
                    s = pool.fm(shape, layout, dt, avoid=(b["id"],))
                    if s["id"] == b["id"] or s["tiles"][0] != s["shape"][0]:
                        continue
                    ops.append(dict(t="dma", src=[s["region"], s["tiles"][3][0], n], dst=[b["region"], b["tiles"][3][0]]))
            continue
        act = dict(type="NONE")
        ax = r.random()
        if ax < 0.25:
            act = dict(type="NONE", min=r.choice([None, 0.0]), max=r.choice([None, 6.0]))
        elif ax < 0.45 and DT_BITS[dt] == 8 and lut_loaded:
            act = dict(type="TABLE_LOOKUP", lut=r.choice(sorted(lut_loaded)))
        if x < dma_p + 0.25:
            # elementwise
            sub = r.choice(["ADD", "SUB", "MUL", "MIN", "MAX", "ABS", "LRELU", "ADD", "MUL"])
            ofm_dt = dt
            ifm_b = pool.fm(shape, layout, dt)
            prev = ops[-1] if ops else None
            if prev is not None and prev["t"] != "dma" and prev["ofm"].get("buf", -1) >= 0 and r.random() < 0.3:
                pb = pool.all[prev["ofm"]["buf"]]
                if tuple(pb["shape"]) == tuple(shape) and pb["dt"] == dt and pb["layout"] == "NHWC" and pb["tiles"][0] == pb["shape"][0] and shape[0] >= 2:
                    # a window of the same shape over what the operation before has just written, starting a few rows further down
                    # (same shape, overlapping bytes, different base address)
                    sy = default_strides(shape, "NHWC", DT_BITS[dt])[0]
                    k_ = r.randrange(0, shape[0])
                    ifm_b = dict(pb, tiles=[pb["tiles"][0], 0, pb["tiles"][2], [pb["tiles"][3][0] + k_ * sy, 0, 0, 0]], shifted_from=pb["tiles"][3][0])
            inplace = r.random() < 0.2
            if inplace and ifm_b.get("shifted_from") is not None:
                ifm_b = pool.all[ifm_b["id"]]  # (in place means the very same feature map: no shifted window)
            ofm_b = ifm_b if inplace else pool.fm(shape, r.choice(layouts), ofm_dt, avoid=(ifm_b["id"],))
            if not inplace and ofm_b["id"] == ifm_b["id"]:
                continue
            op = dict(t="ew", sub=sub, ifm=fm_desc(ifm_b, rand_q(r, dt)), ofm=fm_desc(ofm_b, rand_q(r, ofm_dt)), act=act, block_index=r.randrange(1000))
            if sub not in ("ABS", "LRELU"):
                m = r.random()
                if m < 0.25:
                    q2 = rand_q(r, dt)
                    lo, hi = DT_RANGE[dt]
                    qv = r.randint(max(lo, -30000), min(hi, 30000))
                    op["scalar"] = float((qv - q2[1]) * q2[0])  # a scalar must be representable in IFM2's quantisation
                    op["ifm2"] = dict(dt=dt, region=0, shape=[1, 1, 1], layout="NHWC", tiles=[1, 0, 1, [0, 0, 0, 0]], q=q2, buf=-1)
                else:
                    if m < 0.5:
                        h, w, c = shape
                        s2 = r.choice([(1, 1, c), (1, w, c), (h, 1, 1), (1, 1, 1)])
                    else:
                        s2 = shape
                    i2 = pool.fm(s2, r.choice(layouts) if s2 == shape else "NHWC", dt, avoid=(ofm_b["id"],) if not inplace else ())
                    if i2["id"] == ofm_b["id"] and not (inplace and i2["id"] == ifm_b["id"]):
                        continue
                    op["ifm2"] = fm_desc(i2, rand_q(r, dt))
                    op["reversed"] = False
                    h, w, c = shape
                    if (tuple(s2) in ((1, w, c), (1, 1, c)) and ifm_b["layout"] == "NHWC" and not inplace and h >= 2 and ifm_b["tiles"][0] == h
                            and ifm_b.get("shifted_from") is None and r.random() < 0.35):
                        # the second operand is a row (or a pixel) INSIDE the first one (x + x[k:k+1]): nested address ranges of one operation
                        sy = default_strides(shape, "NHWC", DT_BITS[dt])[0]
                        row = r.randrange(h)
                        op["ifm2"] = dict(dt=dt, region=ifm_b["region"], shape=list(s2), layout="NHWC", tiles=[1, 0, s2[1], [ifm_b["tiles"][3][0] + row * sy, 0, 0, 0]],
                                          q=op["ifm"]["q"], buf=ifm_b["id"])
                if r.random() < 0.3:
                    op["reversed"] = True  # IFM2 is the first operand (const - x, const >> x ...)
            if ifm_b.get("shifted_from") is not None:
                # the shifted window reaches past the end of the buffer it came from: the operation itself must stay well formed (its own
                # OFM / IFM2 may not share bytes with the window); otherwise fall back to the unshifted feature map
                def rng(f):
                    if f is None or f.get("buf") == -1:
                        return None
                    a_ = min(x_ for x_ in f["tiles"][3][:1])
                    return (f["region"], a_, a_ + fm_bytes(f["shape"], f["layout"], DT_BITS[f["dt"]]) + 64)
                wi = rng(op["ifm"])
                clash = any(o_ is not None and o_[0] == wi[0] and o_[1] < wi[2] and wi[1] < o_[2] for o_ in (rng(op["ofm"]), rng(op.get("ifm2"))))
                if clash or op["ofm"]["tiles"][0] != op["ofm"]["shape"][0]:
                    op["ifm"]["tiles"] = [shape[0], 0, shape[1], [ifm_b["shifted_from"], 0, 0, 0]]
            ops.append(op)
        elif x < dma_p + 0.45:
            # pooling
            h, w, c = shape
            k = r.choice([(1, 1), (2, 2), (3, 3), (2, 1)])
            st = r.choice([(1, 1), (2, 2), (1, 1), (2, 1), (1, 2)])
            pad = [0, 0, 0, 0]
            if k == (3, 3) and r.random() < 0.5:
                pad = [1, 1, 1, 1]
            oh = (h + pad[0] + pad[2] - k[1]) // st[1] + 1
            ow = (w + pad[1] + pad[3] - k[0]) // st[0] + 1
            if oh < 1 or ow < 1:
                continue
            ifm_b = pool.fm(shape, layout, dt)
            ofm_b = pool.fm((oh, ow, c), r.choice(layouts), dt, avoid=(ifm_b["id"],))
            if ofm_b["id"] == ifm_b["id"]:
                continue
            ops.append(dict(t="pool", sub=r.choice(["MAX", "AVERAGE"]), ifm=fm_desc(ifm_b, rand_q(r, dt)), ofm=fm_desc(ofm_b, rand_q(r, dt)),
                            kernel=[k[0], k[1], st[0], st[1], 1, 1], pad=pad, act=act, block_index=r.randrange(1000)))
        else:
            # conv / depthwise with weights from constants or from a DMA-filled buffer
            h, w, c = shape
            dw = r.random() < 0.4
            # (kernels beyond 8 rows / columns are executed as several sub-kernels inside one block job: the job still reads the
            # whole footprint)
            k = r.choice([(1, 1), (3, 3), (1, 3), (2, 2), (1, 1), (3, 3), (1, 7), (7, 1), (5, 5), (1, 12), (12, 1), (9, 3), (3, 10)])
            dil = r.choice([(1, 1), (1, 1), (2, 2), (2, 1), (1, 2)])
            st = r.choice([(1, 1), (1, 1), (2, 2), (2, 1), (1, 2), (3, 1), (1, 3)])
            kw_e, kh_e = (k[0] - 1) * dil[0] + 1, (k[1] - 1) * dil[1] + 1
            pad = [0, 0, 0, 0]
            if r.random() < 0.5:
                pad = [kh_e // 2, kw_e // 2, kh_e // 2, kw_e // 2]
            oh = (h + pad[0] + pad[2] - kh_e) // st[1] + 1
            ow = (w + pad[1] + pad[3] - kw_e) // st[0] + 1
            if oh < 1 or ow < 1:
                continue
            oc = c if dw else r.choice([8, 16, 32])
            ifm_b = pool.fm(shape, layout, dt)
            prev = ops[-1] if ops else None
            if prev is not None and prev["t"] != "dma" and prev["ofm"].get("buf", -1) >= 0 and r.random() < 0.5:
                pb = pool.all[prev["ofm"]["buf"]]
                if tuple(pb["shape"]) == tuple(shape) and pb["dt"] == dt:
                    ifm_b = pb  # read what the operation before has just written (the BLOCKDEP between the two matters)
            ofm_b = pool.fm((oh, ow, oc), r.choice(layouts), dt, avoid=(ifm_b["id"],))
            if ofm_b["id"] == ifm_b["id"]:
                continue
            ncores = 2 if acc == "Ethos_U65_512" else 1
            weights, biases = [], []
            from_buf = bool(weight_bufs) and r.random() < 0.5  # one region per operation: WEIGHT_REGION / SCALE_REGION are single registers
            n_ranges = ncores
            if ncores == 2 and r.random() < 0.3:
                n_ranges = 1  # an operation that gives the second core nothing to do (e.g. a single output channel)
            for core in range(n_ranges):
                if from_buf:
                    wb = r.choice(weight_bufs)
                    n = wb[2] // 2 // 16 * 16
                    weights.append([wb[0], wb[1], max(16, n)])
                    biases.append([wb[0], wb[1] + max(16, n), max(16, wb[2] - max(16, n)) // 16 * 16 or 16])
                else:
                    weights.append(const_range(r.choice([64, 256])))
                    biases.append(const_range(r.choice([16, 80, 160])))
            ops.append(dict(t="dw" if dw else "conv", ifm=fm_desc(ifm_b, rand_q(r, dt)), ofm=fm_desc(ofm_b, rand_q(r, dt)),
                            kernel=[k[0], k[1], st[0], st[1], dil[0], dil[1]], pad=pad, weights=weights, biases=biases, act=act,
                            traversal=r.choice(["DEPTH_FIRST", "PART_KERNEL_FIRST"]), block_index=r.randrange(1000),
                            rounding=r.choice(["TFL", "TFL", "NATURAL", "TRUNCATE"])))
    return dict(acc=acc, ops=ops)


# ----------------------------------------------------------------------------------------------- materialise
def make_fm(api, d):
    fm = api.NpuFeatureMap()
    fm.data_type = getattr(api.NpuDataType, d["dt"].upper())
    fm.region = d["region"]
    fm.shape = api.NpuShape3D(*d["shape"])
    fm.layout = getattr(api.NpuLayout, d["layout"])
    t = d["tiles"]
    fm.tiles = api.NpuTileBox(t[0], t[1], t[2], list(t[3]))
    fm.quantization = api.NpuQuantization(d["q"][0], d["q"][1]) if d.get("q") is not None else None
    fm.strides = api.NpuShape3D(*d["strides"]) if d.get("strides") else None
    return fm


def make_op(api, d, acc_enum):
    if d["t"] == "dma":
        n = d["src"][2]
        return api.NpuDmaOperation(api.NpuAddressRange(d["src"][0], d["src"][1], n), api.NpuAddressRange(d["dst"][0], d["dst"][1], n))
    if d["t"] == "conv":
        op = api.NpuConv2DOperation()
        op.block_traversal = getattr(api.NpuBlockTraversal, d.get("traversal", "DEPTH_FIRST"))
    elif d["t"] == "dw":
        op = api.NpuConvDepthWiseOperation()
    elif d["t"] == "pool":
        op = api.NpuPoolingOperation(getattr(api.NpuPoolingOp, d["sub"]))
    else:
        op = api.NpuElementWiseOperation(getattr(api.NpuElementWiseOp, d["sub"]))
        op.reversed_operands = bool(d.get("reversed", False))
    op.ifm = make_fm(api, d["ifm"])
    op.ofm = make_fm(api, d["ofm"])
    if d.get("ifm2") is not None:
        op.ifm2 = make_fm(api, d["ifm2"])
        if d.get("scalar") is not None:
            op.ifm2_scalar = d["scalar"]
    if d.get("kernel"):
        op.kernel = api.NpuKernel(*d["kernel"])
    if d.get("pad") is not None and d["t"] != "ew":
        op.padding = api.NpuPadding(*d["pad"])
    for w in d.get("weights", []):
        op.weights.append(api.NpuAddressRange(*w))
    for b in d.get("biases", []):
        op.biases.append(api.NpuAddressRange(*b))
    a = d.get("act") or {}
    if a.get("type", "NONE") != "NONE" or a.get("min") is not None or a.get("max") is not None:
        act = api.NpuActivation(getattr(api.NpuActivationOp, "NONE_OR_RELU" if a.get("type", "NONE") == "NONE" else a["type"]))
        act.min = a.get("min")
        act.max = a.get("max")
        if a.get("type") == "TABLE_LOOKUP":
            act.lookup_table_index = a["lut"]
        op.activation = act
    if d.get("rounding"):
        op.rounding_mode = getattr(api.NpuRoundingMode, d["rounding"])
    if d.get("up"):
        op.ifm_upscale = getattr(api.NpuResamplingMode, d["up"])
    if d.get("block") is not None:
        op.block_config = api.NpuShape3D(*d["block"])
    else:
        cfgs = api.npu_find_block_configs(op, acc_enum)
        c = cfgs[d.get("block_index", 0) % len(cfgs)]
        op.block_config = c
        d["_block"] = [c.height, c.width, c.depth]
        d["_n_configs"] = len(cfgs)
    return op


def materialise(wl):
    from ethosu.vela import api

    acc_enum = getattr(api.NpuAccelerator, wl["acc"])
    return [make_op(api, d, acc_enum) for d in wl["ops"]], acc_enum, api


def extents(wl):
    """bytes needed per region for the address pool of a workload"""
    ext = {0: 16, 1: 16, 2: 16}
    for d in wl["ops"]:
        if d["t"] == "dma":
            n = d["src"][2]
            for reg, a in ((d["src"][0], d["src"][1]), (d["dst"][0], d["dst"][1])):
                if reg in ext:
                    ext[reg] = max(ext[reg], a + n)
            continue
        for k in ("ifm", "ifm2", "ofm"):
            f = d.get(k)
            if f is None or f.get("buf") == -1:
                continue
            bits = DT_BITS[f["dt"]]
            sy = (f.get("strides") or default_strides(f["shape"], f["layout"], bits))[0]
            for a in f["tiles"][3]:
                ext[f["region"]] = max(ext[f["region"]], a + fm_bytes(f["shape"], f["layout"], bits))
        for w in d.get("weights", []) + d.get("biases", []):
            ext[w[0]] = max(ext[w[0]], w[1] + w[2])
    return {k: round_up(v, 16) + 64 for k, v in ext.items()}


# ----------------------------------------------------------------------------------------------- single operations (C15)
def gen_single_op(r, acc):
    """One operation with a wide range of shapes / kernels / element types / activations, for the block-configuration query:
    the legality of an offered configuration depends on sizes a shared small address pool never reaches."""
    pool = Pool(r, regions=(1,))
    kind = r.choice(["conv", "conv", "dw", "pool", "ew", "ew", "ew"])
    dt = r.choice(["int8", "int8", "uint8", "int16"])
    h = r.choice([1, 1, 2, 3, 5, 8, 8, 13, 16, 31, 40])
    w = r.choice([1, 2, 3, 4, 7, 8, 8, 16, 17, 33, 64])
    c = r.choice([1, 2, 3, 4, 7, 8, 16, 16, 24, 32, 33, 48, 64, 100, 104, 128, 200, 256, 320])
    layouts = ["NHWC", "NHCWB16"]
    act = dict(type="NONE")
    ax = r.random()
    if ax < 0.25:
        act = dict(type="NONE", min=r.choice([None, 0.0]), max=r.choice([None, 6.0]))
    elif ax < 0.55 and DT_BITS[dt] == 8:
        act = dict(type="TABLE_LOOKUP", lut=r.randrange(8))
    q = lambda t: rand_q(r, t)  # noqa: E731
    if kind == "ew":
        sub = r.choice(["ADD", "SUB", "MUL", "MIN", "MAX", "ABS", "LRELU", "ADD", "MUL", "CLZ", "SHL", "SHR"])
        if sub in ("CLZ", "SHL", "SHR"):
            dt = "int32"
            act = dict(type="NONE")
        elif r.random() < 0.1:
            dt = "int32"
            act = dict(type="NONE")
            sub = r.choice(["ADD", "SUB", "MUL"])
        shape = (h, w, c)
        ifm_b = pool.fm(shape, r.choice(layouts), dt, reuse_p=0.0)
        ofm_b = pool.fm(shape, r.choice(layouts), dt, reuse_p=0.0)
        op = dict(t="ew", sub=sub, ifm=fm_desc(ifm_b, q(dt)), ofm=fm_desc(ofm_b, q(dt)), act=act, block_index=r.randrange(1000))
        if sub not in ("ABS", "LRELU", "CLZ"):
            m = r.random()
            if m < 0.4:
                q2 = q(dt)
                lo, hi = DT_RANGE[dt]
                qv = r.randint(max(lo, -30000), min(hi, 30000))
                op["scalar"] = float((qv - q2[1]) * q2[0])
                op["ifm2"] = dict(dt=dt, region=0, shape=[1, 1, 1], layout="NHWC", tiles=[1, 0, 1, [0, 0, 0, 0]], q=q2, buf=-1)
            else:
                s2 = r.choice([(1, 1, c), (1, w, c), (h, 1, 1), (1, 1, 1), shape, shape])
                i2 = pool.fm(s2, r.choice(layouts) if s2 == shape else "NHWC", dt, reuse_p=0.0)
                op["ifm2"] = fm_desc(i2, q(dt))
                op["reversed"] = False
            if r.random() < 0.3:
                op["reversed"] = True
        return dict(acc=acc, ops=[op])
    k = r.choice([(1, 1), (1, 1), (3, 3), (3, 3), (1, 3), (3, 1), (2, 2), (5, 5), (7, 7), (1, 7), (8, 8), (4, 3)])
    dil = r.choice([(1, 1), (1, 1), (1, 1), (2, 2), (2, 1), (1, 2)]) if kind != "pool" else (1, 1)
    st = r.choice([(1, 1), (1, 1), (2, 2), (1, 2), (2, 1), (3, 3), (3, 1), (1, 3), (2, 3), (3, 2), (4, 1), (1, 4)])
    up = r.choice([None, None, None, "NEAREST", "TRANSPOSE"]) if kind in ("conv", "pool") else None
    if up:
        st = (1, 1)
    kw_e, kh_e = (k[0] - 1) * dil[0] + 1, (k[1] - 1) * dil[1] + 1
    uf = 2 if up else 1
    pad = [0, 0, 0, 0]
    if r.random() < 0.5:
        pad = [kh_e // 2, kw_e // 2, (kh_e - 1) // 2, (kw_e - 1) // 2]
    oh = (h * uf + pad[0] + pad[2] - kh_e) // st[1] + 1
    ow = (w * uf + pad[1] + pad[3] - kw_e) // st[0] + 1
    if oh < 1 or ow < 1:
        return gen_single_op(r, acc)
    ifm_b = pool.fm((h, w, c), r.choice(layouts), dt, reuse_p=0.0)
    if kind == "pool":
        sub = r.choice(["MAX", "AVERAGE", "AVERAGE", "REDUCE_SUM"])
        if sub == "REDUCE_SUM":
            k, st, pad, up = (1, 1), (1, 1), [0, 0, 0, 0], None
            if ifm_b["layout"] != "NHWC":  # documented restriction of the two-core accelerator; kept for all
                ifm_b = pool.fm((h, w, c), "NHWC", dt, reuse_p=0.0)
            ofm_b = pool.fm((h, w, 1), r.choice(layouts), r.choice([dt, "int32"]), reuse_p=0.0)
            return dict(acc=acc, ops=[dict(t="pool", sub=sub, ifm=fm_desc(ifm_b, q(dt)), ofm=fm_desc(ofm_b, q(ofm_b["dt"])),
                                           kernel=[1, 1, 1, 1, 1, 1], pad=pad, act=dict(type="NONE"), block_index=r.randrange(1000))])
        if k[0] * k[1] > 64 or max(k) > 8 and sub == "AVERAGE":
            k = (2, 2)
        ofm_b = pool.fm((oh, ow, c), r.choice(layouts), dt, reuse_p=0.0)
        d = dict(t="pool", sub=sub, ifm=fm_desc(ifm_b, q(dt)), ofm=fm_desc(ofm_b, q(dt)), kernel=[k[0], k[1], st[0], st[1], 1, 1], pad=pad,
                 act=act, block_index=r.randrange(1000))
        if up:
            d["up"] = up
        return dict(acc=acc, ops=[d])
    dw = kind == "dw"
    oc = c if dw else r.choice([1, 3, 8, 16, 24, 32, 64, 100, 128, 256])
    ofm_b = pool.fm((oh, ow, oc), r.choice(layouts), dt, reuse_p=0.0)
    ncores = 2 if acc == "Ethos_U65_512" else 1
    weights = [[0, 1024 * i, 256] for i in range(ncores)]
    biases = [[0, 8192 + 1024 * i, 160] for i in range(ncores)]
    d = dict(t="dw" if dw else "conv", ifm=fm_desc(ifm_b, q(dt)), ofm=fm_desc(ofm_b, q(dt)), kernel=[k[0], k[1], st[0], st[1], dil[0], dil[1]],
             pad=pad, weights=weights, biases=biases, act=act, traversal=r.choice(["DEPTH_FIRST", "PART_KERNEL_FIRST"]), block_index=r.randrange(1000),
             rounding=r.choice(["TFL", "NATURAL", "TRUNCATE"]))
    if up:
        d["up"] = up
    return dict(acc=acc, ops=[d])
