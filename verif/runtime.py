"""TFLM-style runtime peer (tag level): one arena laid out by the OfflineMemoryAllocation metadata, operators executed in
file order, each Ethos-U custom operator handed to the driver + NPU models under a set of schedules."""
import numpy as np

from . import artefact, driver, hwspec as HW
from .npu import engine as E
from .npu import regs as R

DEAD = -2  # scratch bytes written by an earlier custom operator that are not part of any of its output tensors


def owner(t):
    return E.CPU0 - t


class Plan:
    """Everything schedule-independent about one output model."""

    def __init__(self, model, acc, spilling=False):
        self.m = model
        self.acc = acc
        self.spilling = spilling
        self.viol = []
        self.alloc = artefact.offline_allocation(model)
        nt = len(model.tensors)
        if self.alloc is None:
            self.offsets = [-1] * nt
        else:
            offs = self.alloc["offsets"]
            if len(offs) != nt:
                self.viol.append(E.Violation(prop="C12", oracle="metadata_length", got=len(offs), tensors=nt))
            self.offsets = (offs + [-1] * nt)[:nt]
        self.arena_size = 0
        for t in model.tensors:
            o = self.offsets[t.idx]
            if o >= 0:
                self.arena_size = max(self.arena_size, o + t.nbytes())
        self.eops = {e["op"].idx: e for e in artefact.ethosu_ops(model)}
        self.programs = {}
        uid = 1
        for oi, e in sorted(self.eops.items()):
            ent = dict(e=e, uid_base=uid, prep=None, payload=None, err=None)
            try:
                ent["payload"] = driver.parse_payload(e["cs"], acc)
                prog, info = R.build_program(ent["payload"]["words"], acc)
                ent["info"] = info
                ent["prep"] = E.Prepared(prog, acc)
                uid += len(prog) + 1
            except driver.DriverReject as ex:
                ent["err"] = ("C17", ex.oracle, str(ex))
            except R.StreamError as ex:
                ent["err"] = ("C06", ex.oracle, str(ex))
            self.programs[oi] = ent


def region_map(plan, e, mem):
    """Regions as published by the file.  0 constants, 1 arena scratch, 2 fast scratch, 0x103 SHRAM."""
    viol = []
    offs = plan.offsets
    mem.map_region(0, "flash:%d" % e["op"].idx, 0, len(e["flash"]))
    so = offs[e["scratch_t"].idx]
    ssize = e["scratch_t"].elems()
    fsize = e["fast_t"].elems()
    fo = offs[e["fast_t"].idx]
    if so < 0:
        # no arena placement published for the scratch tensor: give it a private space of its published size
        mem.add_space("scratch:%d" % e["op"].idx, ssize)
        mem.map_region(1, "scratch:%d" % e["op"].idx, 0, ssize)
    else:
        mem.map_region(1, "arena", so, ssize)
    if fo < 0 or plan.spilling:
        # Dedicated-SRAM (spilling) modes: the driver points region 2 at its own fast memory, not at the arena
        if "fast" not in mem.tags or len(mem.tags["fast"]) < fsize:
            mem.add_space("fast", fsize)
        mem.map_region(2, "fast", 0, fsize)
    else:
        mem.map_region(2, "arena", fo, fsize)
    mem.map_region(HW.SHRAM_REGION, "shram", 0, HW.ACCEL[plan.acc]["shram_bytes"])
    return viol


class Inference:
    """One simulated inference at tag level.  policies: list of engine policies to run *in addition to* the sequential
    reference for every custom operator (each from the same starting memory); rngs: matching random.Random list."""

    def __init__(self, plan, policies=(), rngs=(), keep_choices=False):
        self.plan = plan
        self.policies = list(policies)
        self.rngs = list(rngs)
        self.viol = list(plan.viol)
        self.stats = dict(cpu_ops=0, npu_ops=0, schedules=0, steps=0, kernel_ops=0, dma_ops=0, jobs=0, overlap_states=0,
                          burst_splits=0, max_kernel_inflight=0, max_dma_inflight=0, kernel_overlap_jobs=0, interleavings=set(),
                          states=0, issue_blocked_on_wait=0)
        self.failing = None  # (op idx, policy, choices) of the first failing async run
        self.keep_choices = keep_choices
        self.arena_touch_max = 0
        self.dead_stores = []

    def v(self, **kw):
        self.viol.append(E.Violation(**kw))

    def run(self):
        plan = self.plan
        m = plan.m
        mem = E.Memory()
        mem.add_space("arena", plan.arena_size)
        mem.add_space("shram", HW.ACCEL[plan.acc]["shram_bytes"])
        for e in plan.eops.values():
            mem.add_space("flash:%d" % e["op"].idx, len(e["flash"]), E.CONST)
        offs = plan.offsets
        arena = mem.tags["arena"]
        produced = set()
        alias = {}
        defined = {}  # root tensor -> mask of the bytes its producer(s) have written so far

        def root(ti):
            while ti in alias:
                ti = alias[ti]
            return ti

        def own(ti):
            return owner(root(ti))

        self.root = root
        for k, ti in enumerate(m.inputs):
            t = m.tensors[ti]
            o = offs[ti]
            if o < 0:
                # no offline placement (-1: allocated by the runtime on line).  That is only wrong for a tensor an Ethos-U
                # operator addresses through its scratch region; an input nobody reads needs no place at all
                if any(ti in e_["fm_inputs"] for e_ in plan.eops.values()):
                    self.v(prop="C12", oracle="input_not_in_arena", tensor=ti)
                continue
            arena[o:o + t.nbytes()] = owner(ti)
            defined[ti] = np.ones(t.nbytes(), bool)
            produced.add(ti)

        # variable (state) tensors live across inferences: the runtime zeroes them once, Ethos-U operators that take them as
        # operands update them in place, nothing else may ever write to them
        variables = [t.idx for t in m.tensors if getattr(t, "is_variable", False) and offs[t.idx] >= 0 and t.data is None]
        for ti in variables:
            t = m.tensors[ti]
            arena[offs[ti]:offs[ti] + t.nbytes()] = owner(ti)
            defined[ti] = np.ones(t.nbytes(), bool)
            produced.add(ti)

        def check_variables(op_idx, opname):
            for ti in variables:
                t = m.tensors[ti]
                seg = arena[offs[ti]:offs[ti] + t.nbytes()]
                bad = seg != owner(ti)
                if bad.any():
                    i = int(np.argmax(bad))
                    self.v(prop="C12", oracle="live_tensor_clobbered", op=op_idx, opname=opname, tensor=ti, tname=t.name, offset=offs[ti] + i,
                           found_tag=int(seg[i]), n_bytes=int(bad.sum()), who="variable_state")
                    seg[:] = owner(ti)  # reported once

        def classify(ti, seg):
            """-> (clobbered, undefined) masks: a byte the producer wrote and that no longer carries the tensor's tag was overwritten
            while live (plan defect, C12); a byte no producer ever wrote is an undefined byte (C03), reported when a CPU operator or
            the client consumes it - the NPU engine reports its own undefined reads byte by byte"""
            bad = seg != own(ti)
            d = defined.get(root(ti))
            if d is None or len(d) != len(bad):
                return bad, np.zeros(len(bad), bool)
            return bad & d, bad & ~d

        def check_operand(op, ti, who):
            t = m.tensors[ti]
            if t.data is not None:
                return
            o = offs[ti]
            if o < 0:
                return
            if ti not in produced:
                self.v(prop="C11", oracle="operand_not_produced", op=op.idx, opname=op.name, tensor=ti, tname=t.name)
                return
            seg = arena[o:o + t.nbytes()]
            bad, undef = classify(ti, seg)
            if bad.any():
                i = int(np.argmax(bad))
                self.v(prop="C12", oracle="live_tensor_clobbered", op=op.idx, opname=op.name, tensor=ti, tname=t.name, offset=o + i,
                       found_tag=int(seg[i]), n_bytes=int(bad.sum()), who=who)
            if undef.any() and who != "npu_input":
                i = int(np.argmax(undef))
                self.v(prop="C03", oracle="unwritten_output_consumed", op=op.idx, opname=op.name, tensor=ti, tname=t.name, offset=o + i,
                       found_tag=int(seg[i]), n_bytes=int(undef.sum()), who=who)

        for op in m.ops:
            check_variables(op.idx, op.name)
            if op.idx in plan.eops:
                ent = plan.programs[op.idx]
                e = ent["e"]
                self.stats["npu_ops"] += 1
                if ent["err"]:
                    self.v(prop=ent["err"][0], oracle=ent["err"][1], op=op.idx, msg=ent["err"][2])
                    for ti in e["outputs"]:
                        produced.add(ti)
                        o = offs[ti]
                        if o >= 0:
                            arena[o:o + m.tensors[ti].nbytes()] = owner(ti)
                    continue
                for ti in e["fm_inputs"]:
                    check_operand(op, ti, "npu_input")
                mem.tags["shram"][:] = E.UNINIT
                for v_ in region_map(plan, e, mem):
                    self.viol.append(v_)
                prep = ent["prep"]
                allowed = np.array(sorted(own(ti) for ti in e["fm_inputs"]) + [E.CONST], dtype=np.int64)
                start = mem
                t1 = ent.get("t1")
                self.stats["t1_streams"] = self.stats.get("t1_streams", 0) + int(t1 is not None)
                ref = NpuRun(prep, start.clone(), None, E.SEQUENTIAL, ent["uid_base"], allowed, t1)
                ref.track_dead_stores = True
                ref.was_read = {}
                ref.run()
                for d_ in ref.dead_stores:
                    a_, b_ = prep.prog[d_["op"]], prep.prog[d_["earlier_op"]]
                    # only a double write by two stripes / depth slices of the SAME operator is an overlap of the partition; an
                    # element nobody reads (e.g. skipped by a stride) that is later reused by another tensor is not
                    if stripe_group(a_) == stripe_group(b_):
                        self.dead_stores.append(dict(d_, npu_op=op.idx, kind=getattr(a_, "kind", "?"), earlier_kind=getattr(b_, "kind", "?")))
                self.stats["schedules"] += 1
                self.stats["steps"] += ref.steps
                self.stats["kernel_ops"] += prep.n_kernel
                self.stats["dma_ops"] += prep.n_dma
                self.stats["jobs"] += prep.n_jobs
                for v_ in ref.viol:
                    v_["npu_op"] = op.idx
                    v_["schedule"] = "sequential"
                    _kind(v_, prep)
                    self.viol.append(v_)
                if not ref.stopped and not ref.deadlock:
                    self.v(prop="C06", oracle="no_stop", op=op.idx)
                for pi, pol in enumerate(self.policies):
                    # (tensor identity is judged in program order only: under a schedule a different writer already is a reads-from divergence)
                    run = NpuRun(prep, start.clone(), self.rngs[pi], pol, ent["uid_base"], allowed).run()
                    self.stats["schedules"] += 1
                    self.stats["steps"] += run.steps
                    for kk in ("overlap_states", "burst_splits", "kernel_overlap_jobs", "issue_blocked_on_wait"):
                        self.stats[kk] += run.stats[kk]
                    for kk in ("max_kernel_inflight", "max_dma_inflight"):
                        self.stats[kk] = max(self.stats[kk], run.stats[kk])
                    self.stats["interleavings"].add(run.event_digest())
                    self.stats["states"] += len(run.states)
                    new = [v_ for v_ in run.viol if not any(_same(v_, w) for w in ref.viol)]
                    for v_ in new:
                        if v_.get("prop") == "C03":
                            # not reproducible in program order: a hazard (C04), not an undefined read of the program itself
                            v_["prop"] = "C04"
                            v_["oracle"] = "async_" + v_["oracle"]
                    new += E.compare_runs(ref, run)
                    for v_ in new:
                        v_["npu_op"] = op.idx
                        v_["schedule"] = pol.get("name", "?")
                        v_["policy_index"] = pi
                        _kind(v_, prep)
                        self.viol.append(v_)
                    if new and self.failing is None:
                        self.failing = dict(npu_op=op.idx, policy=pol, choices=list(run.choices))
                mem = ref.mem
                arena = mem.tags["arena"]
                # ownership after the custom operator: its outputs must have been written completely by it
                lo_uid, hi_uid = ent["uid_base"], ent["uid_base"] + len(prep.prog)
                npu_written = (arena >> 20 >= lo_uid) & (arena >> 20 < hi_uid) & (arena >= 0)
                if npu_written.any():
                    self.arena_touch_max = max(self.arena_touch_max, int(np.nonzero(npu_written)[0].max()) + 1)
                partial = {}
                for ti in e["outputs"]:
                    t = m.tensors[ti]
                    o = offs[ti]
                    if o < 0:
                        self.v(prop="C12", oracle="npu_output_not_in_arena", op=op.idx, tensor=ti)
                        continue
                    seg = npu_written[o:o + t.nbytes()]
                    if not seg.any():
                        # a memory-only operator absorbed into the NPU region may publish its output as an alias of one of
                        # the operator's own inputs (same offset, same bytes, never written): accept exactly that
                        cands = [tj for tj in e["fm_inputs"] if offs[tj] == o and m.tensors[tj].nbytes() == t.nbytes()
                                 and (arena[o:o + t.nbytes()] == own(tj)).all()]
                        if cands:
                            alias[ti] = root(cands[0])
                            self.stats["aliased_outputs"] = self.stats.get("aliased_outputs", 0) + 1
                            continue
                    # bytes this operator did not write keep their previous state (another subgraph may complete the tensor);
                    # whoever consumes an undefined byte is reported at the point of consumption
                    partial[ti] = seg.copy()
                # scratch bytes written by this operator that belong to none of its outputs are dead afterwards
                arena[npu_written] = DEAD
                for ti in variables:
                    if ti in e["fm_inputs"]:
                        arena[offs[ti]:offs[ti] + m.tensors[ti].nbytes()] = owner(ti)  # state updated in place by its own operator
                for ti in e["outputs"]:
                    o = offs[ti]
                    if o >= 0:
                        if ti in partial:
                            view = arena[o:o + m.tensors[ti].nbytes()]
                            view[partial[ti]] = owner(ti)
                            d = defined.get(ti)
                            defined[ti] = partial[ti].copy() if d is None or len(d) != len(partial[ti]) else (d | partial[ti])
                            if not partial[ti].all():
                                self.stats["partially_written_outputs"] = self.stats.get("partially_written_outputs", 0) + 1
                        produced.add(ti)
            else:
                self.stats["cpu_ops"] += 1
                for ti in op.inputs:
                    if ti >= 0:
                        check_operand(op, ti, "cpu_input")
                for ti in op.outputs:
                    t = m.tensors[ti]
                    o = offs[ti]
                    produced.add(ti)
                    if o >= 0:
                        for tj in op.inputs:
                            # input and output of one operator are live together: the plan may not give them common bytes (a reference
                            # kernel is not written to work in place); the view operators below are the exception
                            if tj < 0 or m.tensors[tj].data is not None or offs[tj] < 0 or tj == ti:
                                continue
                            a0, a1, b0, b1 = o, o + t.nbytes(), offs[tj], offs[tj] + m.tensors[tj].nbytes()
                            view = op.name in ("RESHAPE", "SQUEEZE", "EXPAND_DIMS") and tj == op.inputs[0] and b0 == a0 and (b1 - b0) == (a1 - a0)
                            if a0 < b1 and b0 < a1 and not view and a1 > a0 and b1 > b0:
                                self.v(prop="C12", oracle="cpu_operator_output_overlaps_input", op=op.idx, opname=op.name, tensor=ti, tname=t.name, input=tj,
                                       iname=m.tensors[tj].name, out_range=[a0, a1], in_range=[b0, b1])
                        src_t = op.inputs[0] if op.inputs else -1
                        if (op.name in ("RESHAPE", "SQUEEZE", "EXPAND_DIMS") and src_t >= 0 and offs[src_t] == o
                                and m.tensors[src_t].nbytes() == t.nbytes()):
                            alias[ti] = root(src_t)  # in-place view: same bytes, same owner
                        else:
                            arena[o:o + t.nbytes()] = owner(ti)
                            defined[ti] = np.ones(t.nbytes(), bool)
        check_variables(-1, "<end of inference>")
        for ti in m.outputs:
            t = m.tensors[ti]
            if t.data is not None:
                continue
            o = offs[ti]
            if o < 0:
                self.v(prop="C12", oracle="output_not_in_arena", tensor=ti)
                continue
            if ti not in produced:
                self.v(prop="C11", oracle="output_not_produced", tensor=ti, tname=t.name)
                continue
            seg = arena[o:o + t.nbytes()]
            bad, undef = classify(ti, seg)
            if bad.any():
                self.v(prop="C12", oracle="live_tensor_clobbered", op=-1, opname="<model output>", tensor=ti, tname=t.name,
                       offset=o + int(np.argmax(bad)), found_tag=int(seg[int(np.argmax(bad))]), n_bytes=int(bad.sum()), who="client")
            if undef.any():
                self.v(prop="C03", oracle="unwritten_output_consumed", op=-1, opname="<model output>", tensor=ti, tname=t.name,
                       offset=o + int(np.argmax(undef)), found_tag=int(seg[int(np.argmax(undef))]), n_bytes=int(undef.sum()), who="client")
        self.stats["interleavings"] = len(self.stats["interleavings"])
        return self


def stripe_group(it):
    """T0 identity of the source operator a kernel operation belongs to: everything except where its stripe / slice lives"""
    if not getattr(it, "is_kernel", False):
        return ("dma", id(it))
    return (it.kind, it.sub, it.ifm.region, it.ifm.sy, it.ifm.sx, it.ifm.sc, it.ifm.zp, it.ifm.bits, it.ofm.region, it.ofm.sy, it.ofm.sx, it.ofm.sc,
            it.ofm.zp, it.ofm.bits, it.ow, it.kh, it.kw, it.sy, it.sx, it.dil, it.act, it.act_min, it.act_max, it.rounding, tuple(it.ofm_scale))


def _kind(v, prep):
    i = v.get("op")
    if isinstance(i, int) and 0 <= i < len(prep.prog):
        it = prep.prog[i]
        v["kind"] = getattr(it, "kind", "?") + ("/" + it.sub if getattr(it, "sub", None) else "")


def _same(a, b):
    return a.get("prop") == b.get("prop") and a.get("oracle") == b.get("oracle") and a.get("op") == b.get("op")


class NpuRun(E.Run):
    """Engine run with the runtime's ownership rule: a byte the NPU reads from the arena was written by this operator, or is
    owned by one of the operator's feature-map inputs, or is a constant."""

    def __init__(self, prep, mem, rng, policy, uid_base, allowed, t1=None):
        super().__init__(prep, mem, rng=rng, policy=policy, uid_base=uid_base)
        self.allowed = allowed
        # T1 tensor identity (t1seam): which tensor the compiler believes each operation writes / reads
        self.w_eid = None
        if t1 is not None:
            n = len(prep.prog)
            self.w_eid = np.zeros(n, np.int64)
            self.r_eid = {}
            for i, r in enumerate(t1):
                if r is None:
                    continue
                if r["k"] == "s":
                    self.w_eid[i] = r["ofm"][0] if r["ofm"] else 0
                    self.r_eid[(i, "ifm")] = (r["ifm"][0] if r["ifm"] else 0, r["ifm"][1] if r["ifm"] else None)
                    self.r_eid[(i, "ifm2")] = (r["ifm2"][0] if r["ifm2"] else 0, r["ifm2"][1] if r["ifm2"] else None)
                else:
                    self.w_eid[i] = r["dst"][0] if r["dst"] else 0
                    # a DMA moves bytes without consuming them and legitimately over-copies up to the next 16-byte multiple: its
                    # source is not identity-checked (what it wrote is, when a kernel operation reads it)
            self.w_set = set(int(x) for x in self.w_eid if x)
            self.names = {}
            for r in t1:
                if r is not None:
                    for kk in ("ifm", "ifm2", "ofm", "src", "dst"):
                        if r.get(kk):
                            self.names[r[kk][0]] = r[kk][1]

    def _ident(self, op, what, region, addrs, t):
        """A byte that an earlier operation of this stream wrote must have been written as (part of) the very tensor the reading
        operation believes it is reading: otherwise another tensor was placed over / written through a live one."""
        if self.w_eid is None or not len(t):
            return
        want = self.r_eid.get((op.idx, what))
        # only tensors some operation of this stream writes under that very identity: a tensor nobody writes as such is a view
        # the compiler created when it bypassed a memory-only operator, and carries the producer's bytes by design
        if want is None or not want[0] or want[0] not in self.w_set:
            return
        w = (t >> 20) - self.uid_base
        mine = (t >= 0) & (w >= 0) & (w < len(self.w_eid))
        if not mine.any():
            return
        we = np.zeros(len(t), np.int64)
        we[mine] = self.w_eid[w[mine]]
        bad = mine & (we != 0) & (we != want[0])
        if bad.any() and not any(v.get("oracle") == "foreign_tensor_read" and v.get("op") == op.idx for v in self.viol):
            i = int(np.argmax(bad))
            self.viol.append(E.Violation(prop="C03", oracle="foreign_tensor_read", op=op.idx, what=what, region=region, addr=int(addrs[i]),
                                         n_bytes=int(bad.sum()), expected_tensor=want[1], written_as=self.names.get(int(we[i])),
                                         writer_op=int(w[i])))

    def _bad_mask(self, t):
        neg = t < 0
        bad = (t == E.UNINIT) | (t == E.POISON)
        if neg.any():
            bad = bad | (neg & ~np.isin(t, self.allowed))
        return bad


# ======================================================================================================== values
class ValueRun:
    """One inference at VALUE level: arena bytes start as seeded garbage, inputs are written by the client through the source
    model's interface, CPU operators execute with the reference kernels on the arena bytes, each Ethos-U operator executes its
    command stream sequentially on the NPU datapath model."""

    def __init__(self, plan, garbage_seed=0):
        self.plan = plan
        self.garbage_seed = garbage_seed
        self.weight_logs = {}
        self.inexact = False

    def run(self, inputs):
        """inputs: list of ndarrays in model input order.  -> list of output ndarrays (model output order)"""
        import numpy as np
        from . import refint
        from .npu import arith

        plan = self.plan
        m = plan.m
        rs = np.random.RandomState(self.garbage_seed & 0x7FFFFFFF)
        arena = rs.randint(0, 256, size=max(plan.arena_size, 16), dtype=np.uint8)
        shram = rs.randint(0, 256, size=HW.ACCEL[plan.acc]["shram_bytes"], dtype=np.uint8)
        fast = None
        offs = plan.offsets

        def put(ti, v):
            t = m.tensors[ti]
            o = offs[ti]
            b = np.ascontiguousarray(np.asarray(v).astype(t.dtype)).view(np.uint8).reshape(-1)
            arena[o:o + len(b)] = b

        def get(ti):
            t = m.tensors[ti]
            if t.data is not None:
                return t.const()
            if ti in online:
                return online[ti].astype(t.dtype).reshape(t.shape)
            o = offs[ti]
            return arena[o:o + t.nbytes()].view(t.dtype).reshape(t.shape).copy()

        for t in m.tensors:
            if getattr(t, "is_variable", False) and t.data is None and offs[t.idx] >= 0:
                arena[offs[t.idx]:offs[t.idx] + t.nbytes()] = 0  # state tensors are zeroed by the runtime
        online = {}
        for ti, v in zip(m.inputs, inputs):
            if offs[ti] < 0:
                online[ti] = np.asarray(v)  # allocated by the runtime itself, outside the offline plan
                continue
            put(ti, v)
        it = refint.Interp(m)
        for op in m.ops:
            if op.idx in plan.eops:
                ent = plan.programs[op.idx]
                e = ent["e"]
                if ent["err"]:
                    raise arith.NotModelled("payload/stream error")
                mem = E.Memory()
                region_map_values(plan, e, mem)
                vm = arith.VMem(mem.regions)
                vm.add("arena", arena)
                vm.add("flash:%d" % op.idx, np.frombuffer(bytes(e["flash"]), dtype=np.uint8).copy() if len(e["flash"]) else np.zeros(16, np.uint8))
                shram[:] = rs.randint(0, 256, size=len(shram), dtype=np.uint8)
                vm.add("shram", shram)
                if any(r[0] == "fast" for r in mem.regions.values()):
                    if fast is None or len(fast) < e["fast_t"].elems():
                        fast = rs.randint(0, 256, size=max(16, e["fast_t"].elems()), dtype=np.uint8)
                    vm.add("fast", fast)
                if any(r[0].startswith("scratch:") for r in mem.regions.values()):
                    vm.add("scratch:%d" % op.idx, rs.randint(0, 256, size=max(16, e["scratch_t"].elems()), dtype=np.uint8))
                dp = arith.Datapath(plan.acc, vm)
                dp.run(ent["prep"].prog)
                self.inexact = self.inexact or dp.inexact
                self.weight_logs[op.idx] = dp.weight_log
            else:
                for ti in op.inputs:
                    if ti >= 0:
                        it.vals[ti] = np.asarray(get(ti)).astype(np.float64 if m.tensors[ti].type == "FLOAT32" else np.int64)
                fn = getattr(it, "op_" + op.name.split(":")[0], None)
                if fn is None:
                    raise refint.Unsupported(op.name)
                fn(op)
                for ti in op.outputs:
                    if offs[ti] >= 0:
                        put(ti, it.vals[ti])
        return [np.asarray(get(ti)) for ti in m.outputs]


def region_map_values(plan, e, mem):
    offs = plan.offsets
    mem.map_region(0, "flash:%d" % e["op"].idx, 0, max(len(e["flash"]), 0))
    so = offs[e["scratch_t"].idx]
    if so < 0:
        mem.map_region(1, "scratch:%d" % e["op"].idx, 0, e["scratch_t"].elems())
    else:
        mem.map_region(1, "arena", so, e["scratch_t"].elems())
    fo = offs[e["fast_t"].idx]
    if fo < 0 or plan.spilling:
        mem.map_region(2, "fast", 0, e["fast_t"].elems())
    else:
        mem.map_region(2, "arena", fo, e["fast_t"].elems())
    mem.map_region(HW.SHRAM_REGION, "shram", 0, HW.ACCEL[plan.acc]["shram_bytes"])
