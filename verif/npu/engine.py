"""The NPU execution model: tagged memory, kernel queue / DMA queue / command issue under a seeded scheduler.

Concurrency rules (DESIGN 3.5):
 1. commands issue in program order; a kernel op needs a free kernel slot (2), DMA_START a free DMA slot (1 U55 / 2 U65);
    KERNEL_WAIT n / DMA_WAIT n block issue until <= n ops of that kind are outstanding; STOP waits for everything.
 2. DMA transfers execute in order, in bursts of a seeded size.
 3. kernel READ steps happen in global job order, WRITE steps in global job order, a job's WRITE after its READ, at most P
    jobs read-but-unwritten; job f of op B may READ only when at most BLOCKDEP(B)-f jobs of the previous op are unwritten.
 4. everything else is free.
"""
import hashlib

import numpy as np

from .. import hwspec as HW
from . import footprint as FP
from .regs import KernelOp, DmaOp, Wait

UNINIT = -1
CONST = -3
POISON = -4  # copied by a DMA from bytes that were undefined / not owned: harmless unless consumed
INPUT0 = -100  # INPUT k = INPUT0 - k
CPU0 = -100000  # written by CPU operator / tensor t: CPU0 - t


def h64(a):
    return hashlib.blake2b(np.ascontiguousarray(a).tobytes(), digest_size=8).hexdigest()


class Memory:
    """Spaces (tag arrays) and the region -> (space, base, size) mapping published by the output file."""

    def __init__(self):
        self.tags = {}
        self.regions = {}

    def add_space(self, name, size, fill=UNINIT):
        self.tags[name] = np.full(int(size), fill, dtype=np.int64)

    def map_region(self, region, space, base, size, lo=0):
        """addresses [lo, size) of `region` live at space[base + addr]"""
        self.regions[region] = (space, int(base), int(size), int(lo))

    def clone(self):
        m = Memory()
        m.tags = {k: v.copy() for k, v in self.tags.items()}
        m.regions = dict(self.regions)
        return m


class Violation(dict):
    pass


class Prepared:
    """Schedule-independent per-program data (job lists and footprints), shared by all runs of one stream."""

    def __init__(self, prog, acc):
        self.prog = prog
        self.acc = acc
        self.hw = HW.ACCEL[acc]
        self.static_viol = []
        self.n_jobs = 0
        self.n_kernel = 0
        self.n_dma = 0
        for it in prog:
            if isinstance(it, KernelOp):
                self.n_kernel += 1
                it.jobs, it.blocks = FP.sub_jobs(it)
                # BLOCKDEP counts jobs = (OFM block, IFM depth slice); the sub-kernels of a kernel beyond 8x8 are steps inside ONE job
                # (the compiler's own dependency calculation counts the same way: "jobs are invisibly decomposed into subkernels")
                it._job_of = []
                it._jobs_done = [0]
                nj = -1
                lastkey = None
                for jj, j_ in enumerate(it.jobs):
                    key = (j_[0], j_[1])
                    if key != lastkey:
                        nj += 1
                        lastkey = key
                    it._job_of.append(nj)
                    closes = jj + 1 == len(it.jobs) or (it.jobs[jj + 1][0], it.jobs[jj + 1][1]) != key
                    it._jobs_done.append(it._jobs_done[-1] + (1 if closes else 0))
                it._n_jobs = nj + 1
                self.n_jobs += len(it.jobs)
                it._reads = [None] * len(it.jobs)
                it._writes = [None] * len(it.jobs)
                it._const = None
                it._lut = None
                if it.uses_lut:
                    if it.ofm.bits == 16:
                        # the table stage works on the scaled result, i.e. in the OFM's (or the forced 8-bit) range: a 16-bit IFM
                        # with an 8-bit OFM looks up an ordinary 256-entry table
                        it._lut = (self.hw["lut_addr"], HW.LUT_BYTES)  # 512 x 32-bit (base, slope) entries
                    else:
                        # 256 entries of the OFM's width, starting at 256-byte slot lut_index
                        it._lut = (self.hw["lut_addr"] + 256 * it.lut_index, 256 * max(1, it.ofm.bits // 8))
                ub = HW.usable_banks(acc, it.uses_lut) * HW.BANK
                it._shram_written = (0, ub)
                # working memory of the operation inside the lookup-table area (16-bank configurations share the last two banks
                # between tables and accumulators): those bytes no longer hold a table afterwards
                lo = max(0, self.hw["lut_addr"])
                hi = min(self.hw["shram_bytes"], lo + HW.LUT_BYTES)
                it._shram_clobber = [(max(a, lo), min(b, hi)) for a, b in HW.shram_work_ranges(it, acc) if max(a, lo) < min(b, hi)]
                it._mask = None
            elif isinstance(it, DmaOp):
                self.n_dma += 1
                it._mask = None
        dma_bursts = sum(-(-it.len // 16) for it in prog if isinstance(it, DmaOp))
        self.step_cap = 4 * (self.n_jobs * 2 + dma_bursts + len(prog)) + 100


def resolve(mem, region, addrs, width, viol, op, what, write):
    """C02: region known, every byte inside the published extent, no write to region 0.
    -> (space, phys addrs of the in-extent bytes, mask | None) or None.  An access that is partly outside is reported and then
    performed on its in-extent part only, so that the execution stays defined (and identical for any burst split)."""
    if region not in mem.regions:
        viol.append(Violation(prop="C02", oracle="unknown_region", op=op.idx, what=what, region=region))
        return None
    space, base, size, lo_ok = mem.regions[region]
    if len(addrs) == 0:
        return space, addrs, None
    lo = int(addrs.min())
    hi = int(addrs.max()) + width
    mask = None
    if lo < lo_ok or hi > size:
        if not any(v.get("oracle") == "out_of_extent" and v.get("op") == op.idx and v.get("what") == what for v in viol):
            viol.append(Violation(prop="C02", oracle="out_of_extent", op=op.idx, what=what, region=region, lo=lo, hi=hi, extent=size))
        mask = (addrs >= lo_ok) & (addrs + width <= size)
        addrs = addrs[mask]
    if write and region == 0:
        viol.append(Violation(prop="C02", oracle="write_to_constants", op=op.idx, what=what))
        return None
    return space, addrs + base, mask


class Run:
    def __init__(self, prep, mem, rng=None, policy=None, choices=None, uid_base=0, record_events=False):
        self.p = prep
        self.mem = mem
        self.rng = rng
        self.policy = policy or SEQUENTIAL
        self.choices_in = choices
        self.choices = []
        self.uid_base = uid_base
        self.viol = []
        self.rf = {}
        self.steps = 0
        self.stats = dict(max_kernel_inflight=0, max_dma_inflight=0, overlap_states=0, dma_bursts=0, burst_splits=0,
                          kernel_overlap_jobs=0, issue_blocked_on_wait=0)
        self.ev = hashlib.blake2b(digest_size=8)
        self.events = [] if record_events else None
        self.track_dead_stores = False
        self.was_read = None
        self.dead_stores = []
        self.states = set()
        self.deadlock = False

    # ---- memory access with invariants
    def _bad_mask(self, t):
        """bytes whose content is not defined for this operator"""
        return (t == UNINIT) | (t == POISON)

    def _check_tags(self, op, what, region, addrs, t):
        if not len(t):
            return
        if what == "lut":
            # a table is defined by a DMA into SHRAM; bytes last written by a kernel operation are its working memory
            w = (t >> 20) - self.uid_base
            mine = (t >= 0) & (w >= 0) & (w < len(self.p.prog))
            if mine.any():
                isk = np.array([bool(getattr(x, "is_kernel", False)) for x in self.p.prog])
                clob = np.zeros(len(t), bool)
                clob[mine] = isk[w[mine]]
                if clob.any() and not any(v.get("oracle") == "lut_overwritten_by_kernel" and v.get("op") == op.idx for v in self.viol):
                    i = int(np.argmax(clob))
                    self.viol.append(Violation(prop="C03", oracle="lut_overwritten_by_kernel", op=op.idx, what=what, region=region, addr=int(addrs[i]),
                                               writer_op=int(w[i]), n_bytes=int(clob.sum())))
        bad = self._bad_mask(t)
        if bad.any():
            oracle = "uninit_read" if ((t == UNINIT) | (t == POISON))[int(np.argmax(bad))] else "foreign_read"
            if not any(v.get("oracle") == oracle and v.get("op") == op.idx for v in self.viol):
                i = int(np.argmax(bad))
                self.viol.append(Violation(prop="C03", oracle=oracle, op=op.idx, what=what, region=region, addr=int(addrs[i]),
                                           found_tag=int(t[i]), n_bytes=int(bad.sum())))

    def _ident(self, op, what, region, addrs, t):
        """hook: tensor-identity check (T1), see runtime.NpuRun"""

    def _observe(self, op, what, region, addrs, check=True):
        """Tags observed by a read (after the C02 / C03 in-run invariants), or None when out of extent."""
        r = resolve(self.mem, region, addrs, 1, self.viol, op, what, False)
        if r is None:
            return None
        space, pa, mask = r
        t = self.mem.tags[space][pa]
        if self.track_dead_stores:
            self.was_read.setdefault(space, np.ones(len(self.mem.tags[space]), bool))[pa] = True
        if check:
            self._check_tags(op, what, region, addrs if mask is None else addrs[mask], t)
        self._ident(op, what, region, addrs if mask is None else addrs[mask], t)
        if mask is not None:
            full = np.full(len(addrs), POISON, dtype=np.int64)  # bytes outside the extent: undefined content
            full[mask] = t
            t = full
        return t

    def _read(self, op, what, region, addrs, key):
        t = self._observe(op, what, region, addrs)
        self.rf[key] = "oob" if t is None else h64(t)

    def _write(self, op, what, region, addrs, tag):
        r = resolve(self.mem, region, addrs, 1, self.viol, op, what, True)
        if r is None:
            return
        space, pa, mask = r
        if mask is not None and isinstance(tag, np.ndarray):
            tag = tag[mask]
        if self.track_dead_stores and what == "ofm":
            wr = self.was_read.setdefault(space, np.ones(len(self.mem.tags[space]), bool))
            old = self.mem.tags[space][pa]
            mine_lo, mine_hi = self.uid_base << 20, (self.uid_base + len(self.p.prog)) << 20
            dead = (~wr[pa]) & (old >= mine_lo) & (old < mine_hi) & ((old >> 20) != (self.uid_base + op.idx))
            if dead.any() and len(self.dead_stores) < 8:
                i = int(np.argmax(dead))
                self.dead_stores.append(dict(op=op.idx, earlier_op=int(old[i] >> 20) - self.uid_base, addr=int(addrs[i] if mask is None else addrs[mask][i]), n_bytes=int(dead.sum())))
            wr[pa] = False
        self.mem.tags[space][pa] = tag

    def _tag(self, op, job):
        return ((self.uid_base + op.idx) << 20) | job

    # ---- op-level footprints for the in-flight DMA x kernel conflict test
    def _mask(self, op):
        if op._mask is not None:
            return op._mask
        rd = {s: np.zeros(len(t), bool) for s, t in self.mem.tags.items()}
        wr = {s: np.zeros(len(t), bool) for s, t in self.mem.tags.items()}
        scratch = []

        def mark(d, region, addrs):
            r = resolve(self.mem, region, addrs, 1, scratch, op, "mask", False)
            if r is not None:
                d[r[0]][r[1]] = True

        if isinstance(op, DmaOp):
            mark(rd, op.src[0], np.arange(op.src[1], op.src[1] + op.len, dtype=np.int64))
            mark(wr, op.dst[0], np.arange(op.dst[1], op.dst[1] + op.len, dtype=np.int64))
        else:
            for ji, j in enumerate(op.jobs):
                for reg, a in self._job_reads(op, ji):
                    mark(rd, reg, a)
                for reg, a in self._job_writes(op, ji):
                    mark(wr, reg, a)
            for _, _, reg, base, ln in FP.const_ranges(op):
                mark(rd, reg, np.arange(base, base + ln, dtype=np.int64))
            if op._lut:
                mark(rd, HW.SHRAM_REGION, np.arange(op._lut[0], op._lut[0] + op._lut[1], dtype=np.int64))
            mark(wr, HW.SHRAM_REGION, np.arange(op._shram_written[0], op._shram_written[1], dtype=np.int64))
        op._mask = (rd, wr)
        return op._mask

    def _conflict(self, a, b):
        ra, wa = self._mask(a)
        rb, wb = self._mask(b)
        for s in ra:
            if (wa[s] & rb[s]).any():
                return "RAW/WAR", s
            if (ra[s] & wb[s]).any():
                return "WAR/RAW", s
            if (wa[s] & wb[s]).any():
                return "WAW", s
        return None

    def _job_reads(self, op, ji):
        if op._reads[ji] is None:
            bi, sl, win, last = op.jobs[ji]
            op._reads[ji] = FP.job_reads(op, op.blocks[bi], sl, win)
        return op._reads[ji]

    def _job_writes(self, op, ji):
        """writes of sub-job ji: the OFM block, at the last sub-job of that block only."""
        if op._writes[ji] is None:
            bi, sl, win, last = op.jobs[ji]
            op._writes[ji] = FP.job_writes(op, op.blocks[bi]) if last else []
        return op._writes[ji]

    # ---- scheduler
    def _choose(self, n, weights=None):
        """One recorded scheduling decision among n alternatives (replayable from the choices list)."""
        if self.choices_in is not None:
            i = self.choices_in[len(self.choices)] if len(self.choices) < len(self.choices_in) else 0
            if i >= n:
                i = 0
        elif n == 1:
            i = 0
        elif self.rng is None:
            i = max(range(n), key=lambda j: (weights[j] if weights else 0, -j))
        else:
            i = self.rng.choices(range(n), weights)[0] if weights else self.rng.randrange(n)
        self.choices.append(i)
        return i

    def _pick(self, acts):
        return acts[self._choose(len(acts), [self.policy.get(a[0], 1.0) for a in acts])]

    def run(self):
        prog = self.p.prog
        hw = self.p.hw
        max_dma = hw["max_dma"]
        pipe = self.policy.get("pipe", 2)
        bursts = self.policy.get("bursts", [1 << 30])
        pc = 0
        kq = []  # dict(op, nr, nw)
        dq = []  # dict(op, pos)
        stopped = False
        while True:
            acts = []
            if pc < len(prog) and not stopped:
                it = prog[pc]
                if isinstance(it, Wait):
                    if it.kind == "DMA_WAIT":
                        ok = len(dq) <= it.n
                    elif it.kind == "KERNEL_WAIT":
                        ok = len(kq) <= it.n
                    elif it.kind == "STOP":
                        ok = not kq and not dq
                    else:
                        ok = True
                    if ok:
                        acts.append(("issue",))
                    else:
                        self.stats["issue_blocked_on_wait"] += 1
                elif isinstance(it, DmaOp):
                    if len(dq) < max_dma:
                        acts.append(("issue",))
                else:
                    if len(kq) < HW.MAX_KERNELS:
                        acts.append(("issue",))
            if dq:
                acts.append(("dma",))
            for qi, k in enumerate(kq):
                if k["nr"] < len(k["op"].jobs):
                    ok = True
                    if qi > 0:
                        prev = kq[qi - 1]
                        unwritten = prev["op"]._n_jobs - prev["op"]._jobs_done[prev["nw"]]
                        ok = prev["nr"] == len(prev["op"].jobs) and unwritten <= max(0, k["op"].blockdep - k["op"]._job_of[k["nr"]])
                    inflight = sum(q["nr"] - q["nw"] for q in kq)
                    if ok and inflight < pipe:
                        acts.append(("kread", qi))
                    break
            for qi, k in enumerate(kq):
                if k["nw"] < k["nr"]:
                    acts.append(("kwrite", qi))
                    break
                if k["nw"] < len(k["op"].jobs):
                    break
            if not acts:
                if stopped or pc >= len(prog):
                    break
                self.deadlock = True
                self.viol.append(Violation(prop="C04", oracle="deadlock", pc=pc))
                break
            if self.steps > self.p.step_cap:
                self.viol.append(Violation(prop="C04", oracle="step_cap", pc=pc))
                break
            a = self._pick(acts)
            self.steps += 1
            if kq and dq:
                self.stats["overlap_states"] += 1
            self.stats["max_kernel_inflight"] = max(self.stats["max_kernel_inflight"], len(kq))
            self.stats["max_dma_inflight"] = max(self.stats["max_dma_inflight"], len(dq))
            if a[0] == "issue":
                it = prog[pc]
                pc += 1
                self._event(("i", it.idx))
                if isinstance(it, Wait):
                    if it.kind == "STOP":
                        stopped = True
                elif isinstance(it, DmaOp):
                    for k in kq:
                        c = self._conflict(it, k["op"])
                        if c:
                            self.viol.append(Violation(prop="C04", oracle="inflight_conflict", op=it.idx, other=k["op"].idx, kind=c[0], space=c[1]))
                    dq.append(dict(op=it, pos=0))
                else:
                    for d in dq:
                        c = self._conflict(it, d["op"])
                        if c:
                            self.viol.append(Violation(prop="C04", oracle="inflight_conflict", op=it.idx, other=d["op"].idx, kind=c[0], space=c[1]))
                    kq.append(dict(op=it, nr=0, nw=0))
            elif a[0] == "dma":
                d = dq[0]
                op = d["op"]
                remaining = op.len - d["pos"]
                ch = bursts[self._choose(len(bursts))]
                n = min(ch, remaining)
                if n < remaining:
                    self.stats["burst_splits"] += 1
                self.stats["dma_bursts"] += 1
                src = np.arange(op.src[1] + d["pos"], op.src[1] + d["pos"] + n, dtype=np.int64)
                dst = np.arange(op.dst[1] + d["pos"], op.dst[1] + d["pos"] + n, dtype=np.int64)
                # reads-from of a DMA is keyed per 16-byte granule so that it does not depend on the burst split
                # a DMA moves data without consuming it: undefined / foreign source bytes are propagated as POISON and
                # become a violation only if a kernel operation (or the client) consumes them
                t = self._observe(op, "dma_src", op.src[0], src, check=False)
                dtag = self._tag(op, 0)
                if t is not None:
                    hh = self.rf.get((op.idx, "dma"))
                    if hh is None:
                        hh = self.rf[(op.idx, "dma")] = hashlib.blake2b(digest_size=8)
                    hh.update(t.tobytes())
                    bad = self._bad_mask(t)
                    if bad.any():
                        self.stats["dma_poison_bytes"] = self.stats.get("dma_poison_bytes", 0) + int(bad.sum())
                        dtag = np.where(bad, POISON, dtag)
                self._write(op, "dma_dst", op.dst[0], dst, dtag)
                d["pos"] += n
                self._event(("d", op.idx, d["pos"]))
                if d["pos"] >= op.len:
                    dq.pop(0)
            elif a[0] == "kread":
                k = kq[a[1]]
                op = k["op"]
                ji = k["nr"]
                if a[1] > 0:
                    self.stats["kernel_overlap_jobs"] += 1
                for n_, (reg, aa) in enumerate(self._job_reads(op, ji)):
                    self._read(op, "ifm" if n_ == 0 else "ifm2", reg, aa, (op.idx, ji, n_))
                if ji == 0 or ji == len(op.jobs) - 1:
                    for what, core, reg, base, ln in FP.const_ranges(op):
                        self._read(op, what, reg, np.arange(base, base + ln, dtype=np.int64), (op.idx, ji, what, core))
                for lo, hi in op._shram_clobber:
                    self._write(op, "shram_acc", HW.SHRAM_REGION, np.arange(lo, hi, dtype=np.int64), self._tag(op, 0xFFFFF))
                k["nr"] += 1
                self._event(("r", op.idx, ji))
            else:
                k = kq[a[1]]
                op = k["op"]
                ji = k["nw"]
                if op._lut and op.jobs[ji][3]:
                    self._read(op, "lut", HW.SHRAM_REGION, np.arange(op._lut[0], op._lut[0] + op._lut[1], dtype=np.int64), (op.idx, ji, "lut"))
                for reg, aa in self._job_writes(op, ji):
                    self._write(op, "ofm", reg, aa, self._tag(op, ji))
                k["nw"] += 1
                self._event(("w", op.idx, ji))
                if k["nw"] == len(op.jobs):
                    kq.pop(a[1])
            if len(self.states) < 100000:
                self.states.add((pc, tuple((q["op"].idx, q["nr"], q["nw"]) for q in kq), tuple((q["op"].idx, q["pos"]) for q in dq)))
        for k, v in list(self.rf.items()):
            if not isinstance(v, str):
                self.rf[k] = v.hexdigest()
        self.stopped = stopped
        return self

    def _event(self, e):
        self.ev.update(repr(e).encode())
        if self.events is not None:
            self.events.append(e)

    def event_digest(self):
        return self.ev.hexdigest()


SEQUENTIAL = dict(issue=1e-12, dma=1.0, kread=1.0, kwrite=1.0, pipe=1, bursts=[1 << 30], name="sequential")


def draw_policy(r):
    """Swarm: per-run weights.  'starved' = stall fault on that unit."""
    lv = [0.01, 1.0, 100.0]
    pol = dict(issue=r.choice(lv), dma=r.choice(lv), kread=r.choice(lv), kwrite=r.choice(lv), pipe=r.choice([1, 2, 3, 4]),
               bursts=r.choice([[1 << 30], [16], [16, 64, 256], [64, 1 << 30], [256]]))
    pol["name"] = "swarm"
    return pol


def extreme_policies():
    out = []
    for issue in (1e-6, 1e6):
        for dma in (1e-6, 1e6):
            for kern in (1e-6, 1e6):
                out.append(dict(issue=issue, dma=dma, kread=kern, kwrite=kern, pipe=4 if kern < 1 else 1, bursts=[16] if dma < 1 else [1 << 30],
                                name=f"extreme(issue={'eager' if issue > 1 else 'starved'},dma={'eager' if dma > 1 else 'starved'},"
                                     f"kernel={'eager' if kern > 1 else 'starved'})"))
    return out


def compare_runs(ref, run):
    """History check: reads-from and final tag image of `run` equal those of the sequential reference `ref`."""
    out = []
    if run.deadlock:
        return out
    diff = [k for k in ref.rf if run.rf.get(k) != ref.rf[k]]
    diff += [k for k in run.rf if k not in ref.rf]
    if diff:
        k = sorted(diff, key=repr)[0]
        out.append(Violation(prop="C04", oracle="reads_from_divergence", op=k[0], key=repr(k), n_diff=len(diff)))
    for s in ref.mem.tags:
        if not np.array_equal(ref.mem.tags[s], run.mem.tags[s]):
            i = int(np.argmax(ref.mem.tags[s] != run.mem.tags[s]))
            out.append(Violation(prop="C04", oracle="final_memory_divergence", space=s, addr=i, seq_tag=int(ref.mem.tags[s][i]),
                                 got_tag=int(run.mem.tags[s][i])))
            break
    return out
