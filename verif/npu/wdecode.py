"""Weight stream decoding with a vendored, frozen copy of mlw_decode.c (built into /verif/.build, loaded with ctypes)
and /verif's own transcription of the hardware block traversal (stream position -> (oc, ky, kx, ic))."""
import ctypes
import hashlib
import os
import subprocess

import numpy as np

HERE = os.path.dirname(os.path.abspath(__file__))
VENDOR = os.path.join(os.path.dirname(os.path.dirname(HERE)), "vendor", "mlw_decode")
BUILD = os.path.join(os.path.dirname(os.path.dirname(HERE)), ".build")
_lib = None


def lib():
    global _lib
    if _lib is not None:
        return _lib
    h = hashlib.sha256()
    for f in sorted(os.listdir(VENDOR)):
        if f.endswith((".c", ".h")):
            h.update(open(os.path.join(VENDOR, f), "rb").read())
    so = os.path.join(BUILD, "mlwdec-" + h.hexdigest()[:16] + ".so")
    if not os.path.exists(so):
        os.makedirs(BUILD, exist_ok=True)
        tmp = so + ".tmp%d" % os.getpid()
        p = subprocess.run(["gcc", "-O2", "-shared", "-fPIC", "-I", VENDOR, "-o", tmp, os.path.join(VENDOR, "mlw_decode.c")],
                           stdout=subprocess.PIPE, stderr=subprocess.STDOUT, text=True)
        if p.returncode:
            raise RuntimeError("vendored decoder build failed:\n" + p.stdout[-2000:])
        os.replace(tmp, so)
    _lib = ctypes.CDLL(so)
    _lib.mlw_decode.argtypes = [ctypes.c_char_p, ctypes.c_int, ctypes.POINTER(ctypes.POINTER(ctypes.c_int16)), ctypes.c_int]
    _lib.mlw_decode.restype = ctypes.c_int
    return _lib


_libc = ctypes.CDLL(None)
_libc.free.argtypes = [ctypes.c_void_p]


def decode(stream):
    """bytes -> int64 array of decoded weights (stream order)"""
    out = ctypes.POINTER(ctypes.c_int16)()
    b = bytes(stream)
    n = lib().mlw_decode(b, len(b), ctypes.byref(out), 0)
    if n < 0:
        raise ValueError("weight stream does not decode")
    a = np.ctypeslib.as_array(out, shape=(n,)).astype(np.int64) if n else np.zeros(0, np.int64)
    _libc.free(out)
    return a


def traversal_index(ofm_depth, kh, kw, ifm_depth, ifm_ub, ofm_ub, ofm_block_depth, is_dw, is_pk, ifm_bits, dil=(1, 1)):
    """Stream position -> flat index into a [oc, kh, kw, ic] weight tensor, or -1 for padding positions.
    Transcription of the traversal the hardware expects (mlw_encode.c reorder()): OFM block -> IFM block -> sub-kernel
    (8/dilation rows x 8/dilation cols) -> [part-kernel: IFM micro-block] -> OFM micro-block -> kernel element ->
    [depth-first: IFM micro-block] -> OFM lane -> IFM lane.  Returns int64 array."""
    decomp_h, decomp_w = 8 // dil[0], 8 // dil[1]
    ifm_block_depth = 16 if (is_pk or ifm_bits == 16) else 32
    idx = []
    ic_n = 1 if is_dw else ifm_depth
    for obz in range(0, ofm_depth, ofm_block_depth):
        cobd = min(ofm_block_depth, ofm_depth - obz)
        for ibz in range(0, 1 if is_dw else ifm_depth, ifm_block_depth):
            if is_dw:
                cibd = ifm_ub
            else:
                cibd = min(ifm_block_depth, ifm_depth - ibz) if is_pk else ifm_block_depth
            for sky in range(0, kh, decomp_h):
                sh = min(kh - sky, decomp_h)
                for skx in range(0, kw, decomp_w):
                    sw = min(kw - skx, decomp_w)
                    ne = sw * sh
                    if is_pk:
                        if ifm_bits == 16 and ne % 2:
                            ne = -(-ne // 2) * 2
                        elif ifm_bits == 8 and ne % 4:
                            ne = -(-ne // 4) * 4
                    elif is_dw:
                        ne = -(-ne // 4) * 4
                    outer = cibd if is_pk else 1
                    inner = 1 if is_pk else cibd
                    el = np.arange(ne)
                    kx = el % sw
                    ky = el // sw
                    for iuo in range(0, outer, ifm_ub):
                        for ou in range(0, cobd, ofm_ub):
                            # vectorised over (el, iui, oz, iz)
                            iui = np.arange(0, inner, ifm_ub)
                            oz = np.arange(ofm_ub)
                            iz = np.arange(1 if is_dw else ifm_ub)
                            E, I, O, Z = np.meshgrid(el, iui, oz, iz, indexing="ij")
                            wx = skx + kx[E]
                            wy = sky + ky[E]
                            ifm_z = ibz + I + iuo + Z
                            ofm_z = obz + ou + O
                            valid = (ifm_z < ic_n) & (ofm_z < ofm_depth) & (ky[E] < sh)
                            flat = ((ofm_z * kh + wy) * kw + wx) * ic_n + ifm_z
                            idx.append(np.where(valid, flat, -1).ravel())
    return np.concatenate(idx) if idx else np.zeros(0, np.int64)
