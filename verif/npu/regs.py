"""Register-file model: decode command words, track the single hardware register file, and at every NPU_OP construct
the operation *from the register file alone* (values the generator elided are whatever an earlier SET left there)."""
from .. import hwspec as HW


class StreamError(Exception):
    def __init__(self, oracle, msg):
        super().__init__(msg)
        self.oracle = oracle


def decode_words(words):
    """-> list of (kind, name, param, payload, word_index); kind 'set0'|'set1'|'op'."""
    out = []
    i = 0
    n = len(words)
    while i < n:
        w = words[i]
        code = w & 0xFFFF
        param = (w >> 16) & 0xFFFF
        opc = code & 0x3FF
        mode = code & 0xC000
        if code & 0x3C00:
            raise StreamError("reserved_bits", f"word {i}: reserved command bits set in {w:#010x}")
        if mode == 0x4000:
            if opc not in HW.CMD1:
                raise StreamError("unknown_cmd1", f"word {i}: unknown cmd1 opcode {opc:#x}")
            if i + 1 >= n:
                raise StreamError("truncated_cmd1", f"word {i}: cmd1 without payload")
            out.append(("set1", HW.CMD1[opc], param, words[i + 1] & 0xFFFFFFFF, i))
            i += 2
        elif mode == 0:
            if opc not in HW.CMD0:
                raise StreamError("unknown_cmd0", f"word {i}: unknown cmd0 opcode {opc:#x}")
            name = HW.CMD0[opc]
            out.append(("op" if name.startswith("OP_") else "set0", name, param, None, i))
            i += 1
        else:
            raise StreamError("bad_mode", f"word {i}: bad payload mode in {w:#010x}")
    return out


def reg_value(name, param, payload):
    """Hardware value of a cmd1 register."""
    if name in HW.ADDR64:
        v = payload | (param << 32)
        if name in HW.SIGNED_STRIDES and v >= 1 << 47:
            v -= 1 << 48
        return v
    return (payload, param)


class FM:
    __slots__ = ("which", "region", "base", "sx", "sy", "sc", "w0", "h0", "h1", "bits", "es", "nhcwb16", "signed", "zp", "prec")

    def key(self):
        return (self.region, tuple(self.base), self.sx, self.sy, self.sc, self.w0, self.h0, self.h1, self.bits, self.nhcwb16)


def sign16(v):
    return v - 65536 if v >= 32768 else v


def fm_from(regs, p):
    f = FM()
    f.which = p
    g = lambda k, d=0: regs.get(p + k, d)  # noqa: E731
    f.region = g("_REGION")
    f.base = [g("_BASE%d" % i) for i in range(4)]
    f.sx, f.sy, f.sc = g("_STRIDE_X"), g("_STRIDE_Y"), g("_STRIDE_C")
    f.w0, f.h0, f.h1 = g("_WIDTH0_M1") + 1, g("_HEIGHT0_M1") + 1, g("_HEIGHT1_M1") + 1
    prec = g("_PRECISION")
    f.prec = prec
    if p == "OFM":
        f.bits = 8 << ((prec >> 1) & 3)
    else:
        f.bits = 8 << ((prec >> 2) & 3)
    f.signed = bool(prec & 1)
    f.nhcwb16 = (prec >> 6) & 1
    f.es = f.bits // 8
    zp = g("_ZERO_POINT")
    f.zp = sign16(zp)
    return f


class KernelOp:
    is_kernel = True
    is_dma = False


class DmaOp:
    is_kernel = False
    is_dma = True


class Wait:
    is_kernel = False
    is_dma = False

    def __init__(self, kind, n, word):
        self.kind, self.n, self.word = kind, n, word


def kernel_op_from(regs, name, param, acc):
    r = regs
    k = KernelOp()
    k.kind = name[3:]
    k.param = param
    k.regs = dict(r)
    k.ifm = fm_from(r, "IFM")
    k.ofm = fm_from(r, "OFM")
    k.oh, k.ow, k.oc = r.get("OFM_HEIGHT_M1", 0) + 1, r.get("OFM_WIDTH_M1", 0) + 1, r.get("OFM_DEPTH_M1", 0) + 1
    k.bh, k.bw, k.bc = r.get("OFM_BLK_HEIGHT_M1", 0) + 1, r.get("OFM_BLK_WIDTH_M1", 0) + 1, r.get("OFM_BLK_DEPTH_M1", 0) + 1
    k.blockdep = r.get("BLOCKDEP", 0)
    k.ic = r.get("IFM_DEPTH_M1", 0) + 1
    k.ifm2 = None
    k.bcast = 0
    k.scalar = None
    k.ncores = r.get("PARALLEL_MODE", 0) + 1
    k.acc_format = r.get("ACC_FORMAT", 0)
    k.ib_end, k.ib_start2, k.ab_start = r.get("IFM_IB_END", 0), r.get("IFM2_IB_START", 0), r.get("AB_START", 0)
    act = r.get("ACTIVATION", 0)
    k.act = act & 0x1F
    k.act_clip = (act >> 12) & 7
    k.act_min, k.act_max = sign16(r.get("ACTIVATION_MIN", 0)), sign16(r.get("ACTIVATION_MAX", 0))
    k.uses_lut = 16 <= k.act <= 23
    k.lut_index = k.act - 16 if k.uses_lut else None
    op = r.get("OFM_PRECISION", 0)
    k.ofm_global_scale = bool(op & (1 << 8))
    k.rounding = HW.ROUNDING.get((op >> 14) & 3, "?")
    k.ofm_scale = r.get("OFM_SCALE", (0, 0))
    k.opa_scale = r.get("OPA_SCALE", (0, 0))
    k.opb_scale = r.get("OPB_SCALE", (0, 0))
    k.ifm_scale_mode = (k.ifm.prec >> 8) & 3
    if k.kind == "ELEMENTWISE":
        k.sub = HW.EW_MODE.get(param, "?%d" % param)
        k.kh = k.kw = 1
        k.sy = k.sx = 1
        k.pt = k.pl = k.pb = k.pr = 0
        k.up = 0
        k.part_kernel = False
        k.dil = (1, 1)
        if k.sub not in HW.EW_UNARY:
            k.bcast = r.get("IFM2_BROADCAST", 0)
            k.ifm2 = fm_from(r, "IFM2")
            if k.bcast & 0x80:
                v = r.get("IFM2_SCALAR", 0)
                k.scalar = sign16(v) if k.ifm2.signed else v
        k.ih, k.iw = k.oh, k.ow
    else:
        k.sub = HW.POOL_MODE.get(param, "?%d" % param) if k.kind == "POOL" else None
        ks = r.get("KERNEL_STRIDE", 0)
        k.sx = 1 + (ks & 1) + (((ks >> 6) & 7) << 1)
        k.sy = 1 + ((ks >> 1) & 1) + (((ks >> 9) & 7) << 1)
        k.dil = (1 + ((ks >> 4) & 1), 1 + ((ks >> 3) & 1))  # (y, x)
        k.part_kernel = bool(ks & 4)
        k.kw, k.kh = r.get("KERNEL_WIDTH_M1", 0) + 1, r.get("KERNEL_HEIGHT_M1", 0) + 1  # dilated extents
        k.pt, k.pl = r.get("IFM_PAD_TOP", 0), r.get("IFM_PAD_LEFT", 0)
        k.pb, k.pr = r.get("IFM_PAD_BOTTOM", 0), r.get("IFM_PAD_RIGHT", 0)
        k.up = r.get("IFM_UPSCALE", 0)  # 0 none, 1 nearest, 2 transpose (zeros)
        f = 2 if k.up else 1
        ihu = (k.oh - 1) * k.sy + k.kh - k.pt - k.pb
        iwu = (k.ow - 1) * k.sx + k.kw - k.pl - k.pr
        k.ih_up, k.iw_up = ihu, iwu
        k.ih, k.iw = -(-ihu // f), -(-iwu // f)
    k.weights = []
    k.scales = []
    if k.kind in ("CONV", "DEPTHWISE"):
        for core, (b, ln) in enumerate((("WEIGHT_BASE", "WEIGHT_LENGTH"), ("WEIGHT1_BASE", "WEIGHT1_LENGTH"))):
            if core < k.ncores and b in r:
                k.weights.append((r.get("WEIGHT_REGION", 0), r[b], r.get(ln, (0, 0))[0]))
        for core, (b, ln) in enumerate((("SCALE_BASE", "SCALE_LENGTH"), ("SCALE1_BASE", "SCALE1_LENGTH"))):
            if core < k.ncores and b in r:
                k.scales.append((r.get("SCALE_REGION", 0), r[b], r.get(ln, (0, 0))[0]))
    return k


def dma_op_from(regs, param):
    d = DmaOp()
    d.kind = "DMA"
    d.param = param
    d.regs = {k: v for k, v in regs.items() if k in HW.DMA_REGS}
    d.src = (regs.get("DMA0_SRC_REGION", 0), regs.get("DMA0_SRC", 0))
    d.dst = (regs.get("DMA0_DST_REGION", 0), regs.get("DMA0_DST", 0))
    d.len = regs.get("DMA0_LEN", 0)
    return d


def build_program(words, acc):
    """-> (program, info).  program: list of KernelOp | DmaOp | Wait | ('STOP', param).
    Every op carries .idx (position among ops+waits), .word (index of its NPU_OP word), .sets (names SET since previous op)."""
    cmds = decode_words(words)
    regs = {}
    prog = []
    sets = []
    set_log = []
    stops = []
    for kind, name, param, payload, wi in cmds:
        if kind == "set0":
            regs[name] = param
            sets.append((name, wi))
        elif kind == "set1":
            regs[name] = reg_value(name, param, payload)
            sets.append((name, wi))
        else:
            if name in ("OP_CONV", "OP_DEPTHWISE", "OP_POOL", "OP_ELEMENTWISE"):
                it = kernel_op_from(regs, name, param, acc)
            elif name == "OP_DMA_START":
                it = dma_op_from(regs, param)
            elif name in ("OP_DMA_WAIT", "OP_KERNEL_WAIT"):
                it = Wait(name[3:], param & 0xF, wi)
            elif name == "OP_STOP":
                it = Wait("STOP", param, wi)
                stops.append(len(prog))
            else:
                it = Wait(name[3:], param, wi)  # IRQ / PMU_MASK: no effect on the model
            it.idx = len(prog)
            it.word = wi
            if not isinstance(it, Wait) or it.kind == "STOP":
                it.sets = sets
                sets = []
            prog.append(it)
    info = dict(n_cmds=len(cmds), stops=stops, trailing_sets=len(sets), final_regs=regs)
    return prog, info
