"""NPU datapath model (values): executes a decoded program sequentially at operation granularity over byte memories.

Specification sources: public Ethos-U documentation as reflected in the register names, the vendored weight decoder, and the
calibration protocol of DESIGN.md 3.6.  Anything not modelled raises NotModelled -> 'value oracle unavailable' (never a violation)."""
import numpy as np

from .. import hwspec as HW
from ..refint import srdhm, rdp
from . import footprint as FP
from . import wdecode
from .regs import KernelOp, DmaOp, Wait


class NotModelled(Exception):
    pass


import os as _os
TRACE = bool(_os.environ.get("VERIF_TRACE"))


class VMem:
    """byte memories per space + region mapping (same mapping as the tag engine)"""

    def __init__(self, regions):
        self.regions = dict(regions)
        self.bytes = {}

    def add(self, space, arr):
        self.bytes[space] = arr

    def resolve(self, region, addrs, width=1):
        if region not in self.regions:
            raise NotModelled("unknown region")
        space, base, size, lo = self.regions[region]
        if len(addrs) and (int(addrs.min()) < lo or int(addrs.max()) + width > size):
            raise NotModelled("access outside the published extent (reported by the tag run)")
        return self.bytes[space], addrs + base

    def read_elems(self, fm, box):
        a = FP.elem_addrs(fm, *box)
        buf, pa = self.resolve(fm.region, a.ravel(), fm.es)
        pa = pa.reshape(a.shape)
        if fm.es == 1:
            v = buf[pa].astype(np.int64)
        else:
            v = np.zeros(a.shape, np.int64)
            for k in range(fm.es):
                v |= buf[pa + k].astype(np.int64) << (8 * k)
        if fm.signed:
            sign = np.int64(1) << (fm.bits - 1)
            v = (v ^ sign) - sign
        return v

    def write_elems(self, fm, box, vals):
        a = FP.elem_addrs(fm, *box)
        buf, pa = self.resolve(fm.region, a.ravel(), fm.es)
        v = np.asarray(vals, np.int64).ravel() & ((1 << fm.bits) - 1)
        for k in range(fm.es):
            buf[pa + k] = ((v >> (8 * k)) & 0xFF).astype(np.uint8)

    def read_bytes(self, region, base, n):
        buf, pa = self.resolve(region, np.arange(base, base + n, dtype=np.int64))
        return buf[pa]

    def write_bytes(self, region, base, data):
        buf, pa = self.resolve(region, np.arange(base, base + len(data), dtype=np.int64))
        buf[pa] = data


def scale_tfl(x, scale, shift):
    """OFM scaling, TFL rounding: x * scale * 2^-shift with the reference double rounding"""
    x = np.asarray(x, np.int64)
    e = 31 - np.asarray(shift, np.int64)  # TFLite-style shift
    left = np.maximum(e, 0)
    right = np.maximum(-e, 0)
    return rdp(srdhm(x * (np.int64(1) << left), scale), right)


def scale_natural(x, scale, shift):
    x = np.asarray(x, np.int64)
    shift = np.asarray(shift, np.int64)
    prod = x * np.asarray(scale, np.int64)
    return np.where(shift > 0, (prod + (np.int64(1) << np.maximum(shift - 1, 0))) >> shift, prod)


def scale_trunc(x, scale, shift):
    return (np.asarray(x, np.int64) * np.asarray(scale, np.int64)) >> np.asarray(shift, np.int64)


def apply_scale(x, scale, shift, rounding):
    if np.ndim(scale) == 0 and np.ndim(shift) == 0 and int(scale) == 1 and int(shift) == 0:
        return np.asarray(x, np.int64)  # "no scaling": the value itself (also avoids the 2^31 pre-shift overflowing on 32-bit sums)
    if rounding == "TFL":
        return scale_tfl(x, scale, shift)
    if rounding == "NATURAL":
        return scale_natural(x, scale, shift)
    if rounding == "TRUNCATE":
        return scale_trunc(x, scale, shift)
    raise NotModelled("rounding " + str(rounding))


def parse_scale_records(data, n):
    """10-byte records: bias int40, scale uint32, shift 6 bits"""
    d = np.frombuffer(bytes(data[:10 * n]), dtype=np.uint8).reshape(n, 10).astype(np.int64)
    bias = d[:, 0] | (d[:, 1] << 8) | (d[:, 2] << 16) | (d[:, 3] << 24) | (d[:, 4] << 32)
    bias = (bias ^ (np.int64(1) << 39)) - (np.int64(1) << 39)
    scale = d[:, 5] | (d[:, 6] << 8) | (d[:, 7] << 16) | (d[:, 8] << 24)
    shift = d[:, 9] & 0x3F
    return bias, scale, shift


class Datapath:
    def __init__(self, acc, vmem):
        self.acc = acc
        self.hw = HW.ACCEL[acc]
        self.m = vmem
        self.weight_log = []  # per conv/dw op: dict(op idx, W (oc,kh,kw,ic), bias, scale, shift) for C08
        self.inexact = False  # set when a unit without a documented bit-level definition (hardware tanh / sigmoid) took part

    # ---- operand fetch
    def ifm_upscaled(self, k):
        """IFM minus zero point in the (upscaled) coordinate system the kernel slides over, before padding."""
        x = self.m.read_elems(k.ifm, (0, k.ih, 0, k.iw, 0, k.ic)) - k.ifm.zp
        if k.up == 0:
            return x
        if k.up == 1:  # nearest
            x = np.repeat(np.repeat(x, 2, axis=0), 2, axis=1)
        else:  # transpose: zeros between samples
            z = np.zeros((x.shape[0] * 2, x.shape[1] * 2, x.shape[2]), np.int64)
            z[::2, ::2] = x
            x = z
        return x[:k.ih_up, :k.iw_up]

    def padded(self, k, x, fill=0):
        H, W, C = x.shape
        out = np.full((H + k.pt + k.pb + k.kh + k.sy, W + k.pl + k.pr + k.kw + k.sx, C), fill, np.int64)
        out[k.pt:k.pt + H, k.pl:k.pl + W] = x
        return out

    def weights(self, k, depthwise):
        dy, dx = k.dil
        kh, kw = (k.kh - 1) // dy + 1, (k.kw - 1) // dx + 1
        ncores = k.ncores
        oc = k.oc
        ic = 1 if depthwise else k.ic
        W = np.zeros((oc, kh, kw, ic), np.int64)
        bias = np.zeros(oc, np.int64)
        scale = np.zeros(oc, np.int64)
        shift = np.zeros(oc, np.int64)
        info = []
        for core in range(ncores):
            chans = np.arange(core, oc, ncores)
            if len(chans) == 0:
                continue
            if core >= len(k.weights) or k.weights[core][2] == 0:
                raise NotModelled("no weight stream for a core that owns channels")
            reg, base, ln = k.weights[core]
            stream = self.m.read_bytes(reg, base, ln)
            dec = wdecode.decode(stream)
            blk = (k.bc + ncores - 1 - core) // ncores
            tr = wdecode.traversal_index(len(chans), kh, kw, ic, self.hw["ifm_ub"][2], self.hw["ofm_ub"][2], max(blk, 1), depthwise,
                                         k.part_kernel and not depthwise, k.ifm.bits, (dy, dx))
            if len(dec) < len(tr):
                raise ValueError(f"weight stream of core {core} decodes to {len(dec)} values, traversal needs {len(tr)}")
            d = dec[:len(tr)]
            pad_nonzero = int(np.count_nonzero(d[tr < 0])) + int(np.count_nonzero(dec[len(tr):]))
            Wc = np.zeros(len(chans) * kh * kw * ic, np.int64)
            Wc[tr[tr >= 0]] = d[tr >= 0]
            W[chans] = Wc.reshape(len(chans), kh, kw, ic)
            sreg, sbase, sln = k.scales[core]
            if sln < 10 * len(chans):
                raise ValueError(f"scale stream of core {core} has {sln} bytes for {len(chans)} channels")
            b, s, sh = parse_scale_records(self.m.read_bytes(sreg, sbase, sln), len(chans))
            bias[chans], scale[chans], shift[chans] = b, s, sh
            info.append(dict(core=core, channels=len(chans), weight_bytes=ln, scale_bytes=sln, padding_nonzero=pad_nonzero, decoded=len(dec), needed=len(tr)))
        return W, bias, scale, shift, info

    # ---- output stage
    def output(self, k, y):
        """zero point, clamp, lookup table"""
        if k.ofm.bits != 32 or k.uses_lut:
            # a plain 32-bit result is written as it is: the OFM zero point only takes part in the 8/16-bit output stage (the
            # compiler's own SOFTMAX lowering leaves the zero point of the int8 input on its 32-bit intermediates and reads
            # them back with zero point 0; with a table the zero point positions the 8-bit index)
            y = y + k.ofm.zp
        if k.act in (3, 4):
            # hardware TANH / SIGMOID of a 16-bit result: the scaled value counts steps of 1 / 0x3000, the result is Q0.15; the
            # activation range registers then clamp the result.  The unit's internal precision is not documented: this is the
            # exact function rounded once, and whatever is computed through it is compared with a tolerance (never bit-exactly)
            if k.ofm.bits != 16:
                raise NotModelled("hardware tanh/sigmoid activation with a non 16-bit OFM")
            self.inexact = True
            xr = np.asarray(y, np.float64) / float(0x3000)
            f = np.tanh(xr) if k.act == 3 else 1.0 / (1.0 + np.exp(-xr))
            y = np.clip(np.floor(f * 32768.0 + 0.5), -32768, 32767).astype(np.int64)
            return np.clip(y, k.act_min, k.act_max)
        if k.ofm.bits <= 16 or k.uses_lut:
            y = np.clip(y, k.act_min, k.act_max)  # (the 16-bit activation range registers do not apply to a plain 32-bit OFM)
        if k.uses_lut:
            if k.ofm.bits == 16 and k.ifm.bits != 16:
                raise NotModelled("16-bit lookup table behind a non 16-bit IFM")
            if k.ofm.bits == 16:
                # 512 entries of 32 bit (slope << 16) + base over the whole table area; interpolation on the low 7 bits
                raw = self.m.read_bytes(HW.SHRAM_REGION, self.hw["lut_addr"], 2048).astype(np.int64).reshape(512, 4)
                word = raw[:, 0] | (raw[:, 1] << 8) | (raw[:, 2] << 16) | (raw[:, 3] << 24)
                word = np.where(word >= (1 << 31), word - (1 << 32), word)
                base = ((word & 0xFFFF) ^ 0x8000) - 0x8000
                slope = (word - base) >> 16
                idx = np.clip(256 + (y >> 7), 0, 511)
                off = y & 0x7F
                return np.clip(base[idx] + ((slope[idx] * off + 64) >> 7), -32768, 32767)
            if k.ifm.bits not in (8, 16) or k.ofm.bits not in (8, 32):
                raise NotModelled("lookup table with non 8-bit data")
            if k.ofm.bits == 32:
                # 256 entries of 32 bit (1 KiB = four 256-byte slots); indexed by the clamped 8-bit intermediate result
                raw = self.m.read_bytes(HW.SHRAM_REGION, self.hw["lut_addr"] + 256 * k.lut_index, 1024).astype(np.int64).reshape(256, 4)
                lut = raw[:, 0] | (raw[:, 1] << 8) | (raw[:, 2] << 16) | (raw[:, 3] << 24)
                lut = np.where(lut >= (1 << 31), lut - (1 << 32), lut)
                idx = np.clip(y + 128, 0, 255)
                return lut[idx]
            lut = self.m.read_bytes(HW.SHRAM_REGION, self.hw["lut_addr"] + 256 * k.lut_index, 256).astype(np.int64)
            # table is indexed by the (clamped) 8-bit result re-interpreted as unsigned offset from the type minimum
            lo = -128 if k.ofm.signed else 0
            idx = np.clip(y - lo, 0, 255)
            v = lut[idx]
            if k.ofm.signed:
                v = np.where(v >= 128, v - 256, v)
            y = v
        lo, hi = (-(1 << (k.ofm.bits - 1)), (1 << (k.ofm.bits - 1)) - 1) if k.ofm.signed else (0, (1 << k.ofm.bits) - 1)
        return np.clip(y, lo, hi)

    # ---- operations
    def conv(self, k, depthwise):
        if k.ifm.bits not in (8, 16):
            raise NotModelled("%d-bit convolution" % k.ifm.bits)
        x = self.padded(k, self.ifm_upscaled(k))
        W, bias, scale, shift, info = self.weights(k, depthwise)
        dy, dx = k.dil
        kh, kw = W.shape[1], W.shape[2]
        acc = np.zeros((k.oh, k.ow, k.oc), np.int64)
        for ky in range(kh):
            for kx in range(kw):
                patch = x[ky * dy:ky * dy + k.oh * k.sy:k.sy, kx * dx:kx * dx + k.ow * k.sx:k.sx, :]
                if depthwise:
                    acc += patch[:, :, :k.oc] * W[:, ky, kx, 0]
                else:
                    acc += np.tensordot(patch, W[:, ky, kx, :], axes=([2], [1]))
        acc = acc + bias.reshape(1, 1, -1)
        y = apply_scale(acc, scale.reshape(1, 1, -1), shift.reshape(1, 1, -1), k.rounding)
        self.weight_log.append(dict(op=k.idx, W=W, bias=bias, scale=scale, shift=shift, info=info, depthwise=depthwise))
        return self.output(k, y)

    def pool(self, k):
        if k.sub == "REDUCE_SUM":
            # sum over the IFM depth, one output channel; OFM scaling as for the other pooling modes
            x = self.m.read_elems(k.ifm, (0, k.oh, 0, k.ow, 0, k.ic)) - k.ifm.zp
            acc = x.sum(axis=2, keepdims=True)
            sc, sh = k.ofm_scale if k.ofm_global_scale else (1, 0)
            return self.output(k, apply_scale(acc, sc, sh, k.rounding))
        if k.ifm.bits not in (8, 16):
            raise NotModelled("%d-bit pooling" % k.ifm.bits)
        xin = self.ifm_upscaled(k)
        if k.sub == "MAX":
            big = -(1 << 40)
            x = self.padded(k, xin, big)
            y = np.full((k.oh, k.ow, k.oc), big, np.int64)
            for ky in range(k.kh):
                for kx in range(k.kw):
                    y = np.maximum(y, x[ky:ky + k.oh * k.sy:k.sy, kx:kx + k.ow * k.sx:k.sx, :k.oc])
            if k.ofm_global_scale:
                raise NotModelled("max pool with OFM scaling")
            return self.output(k, y)
        if k.sub == "AVERAGE":
            x = self.padded(k, xin, 0)
            ones = self.padded(k, np.ones_like(xin), 0)
            acc = np.zeros((k.oh, k.ow, k.oc), np.int64)
            cnt = np.zeros((k.oh, k.ow, k.oc), np.int64)
            for ky in range(k.kh):
                for kx in range(k.kw):
                    acc += x[ky:ky + k.oh * k.sy:k.sy, kx:kx + k.ow * k.sx:k.sx, :k.oc]
                    cnt += ones[ky:ky + k.oh * k.sy:k.sy, kx:kx + k.ow * k.sx:k.sx, :k.oc]
            if k.ofm_global_scale:
                sc, sh = k.ofm_scale
                y = apply_scale(acc, sc, sh, k.rounding if k.rounding != "TFL" else "NATURAL") if False else self.pool_scale(acc, sc, sh, k)
            else:
                # per-position divisor (padding present): round half away from zero
                c = np.maximum(cnt, 1)
                y = np.where(acc >= 0, (acc + c // 2) // c, -((-acc + c // 2) // c))
            return self.output(k, y)
        raise NotModelled("pool mode " + str(k.sub))

    def pool_scale(self, acc, sc, sh, k):
        # global OFM scale of pooling: (acc * scale) >> shift with the operation's rounding mode
        if k.rounding == "TFL":
            return scale_tfl(acc, sc, sh)
        return apply_scale(acc, sc, sh, k.rounding)

    def elementwise(self, k):
        wide = k.ifm.bits == 32 or k.ofm.bits == 32 or (k.ifm2 is not None and not (k.bcast & 0x80) and k.ifm2.bits == 32)
        if 16 in (k.ifm.bits, k.ofm.bits):
            same16 = (k.ifm.bits == k.ofm.bits == 16 and k.sub in ("ADD", "SUB", "MUL", "MIN", "MAX", "ABS")
                      and (k.ifm2 is None or (k.bcast & 0x80) or k.ifm2.bits == 16))
            # 32-bit product / selection written as 16 bit (MEAN), 16-bit operand selected into 32 bit (LEAKY_RELU with negative alpha)
            mixed = ((k.ifm.bits, k.ofm.bits) in ((32, 16), (16, 32)) and k.sub in ("MUL", "MIN", "MAX")
                     and (k.ifm2 is None or (k.bcast & 0x80) or k.ifm2.bits == k.ifm.bits))
            # 16-bit product written as 8 bit (hidden state of the LSTM lowering)
            mixed = mixed or ((k.ifm.bits, k.ofm.bits) == (16, 8) and k.sub == "MUL" and k.ifm2 is not None and not (k.bcast & 0x80) and k.ifm2.bits == 16)
            if not (same16 or mixed):
                raise NotModelled("16-bit elementwise " + str(k.sub))
        if wide and k.sub not in ("ADD", "SUB", "MUL", "MIN", "MAX", "SHR", "SHL", "CLZ"):
            raise NotModelled("32-bit elementwise " + str(k.sub))
        if k.uses_lut and not ((k.ifm.bits == 8 and k.ofm.bits in (8, 32)) or (k.ifm.bits == 16 and k.ofm.bits == 16)):
            raise NotModelled("lookup table on %d-bit data" % k.ifm.bits)
        if wide and k.sub in ("ADD", "SUB") and (k.ifm_scale_mode != 0 or k.opa_scale[0] != 1 or k.opb_scale[0] != 1):
            raise NotModelled("32-bit add/sub with operand scaling")
        a = self.m.read_elems(k.ifm, (0, k.oh, 0, k.ow, 0, k.oc)) - k.ifm.zp
        if k.sub in HW.EW_UNARY:
            if k.sub == "CLZ":
                u = a & 0xFFFFFFFF
                y = np.where(u == 0, 32, 31 - np.floor(np.log2(np.maximum(u, 1).astype(np.float64))).astype(np.int64))
                return self.output(k, y)
            if k.sub == "ABS":
                y = np.abs(a)
                sc, sh = k.ofm_scale
                y = apply_scale(y, sc, sh, k.rounding)
                return self.output(k, y)
            raise NotModelled("elementwise " + k.sub)
        if k.bcast & 0x80:
            b = np.full_like(a, k.scalar - k.ifm2.zp)
        else:
            h = 1 if k.bcast & 1 else k.oh
            w = 1 if k.bcast & 2 else k.ow
            c = 1 if k.bcast & 4 else k.oc
            b = np.broadcast_to(self.m.read_elems(k.ifm2, (0, h, 0, w, 0, c)) - k.ifm2.zp, a.shape)
        if k.bcast & 0x40:  # reversed operand order: IFM2 is the first operand
            a, b = b, a
            first_is_ifm2 = True
        else:
            first_is_ifm2 = False
        if k.sub in ("MIN", "MAX"):
            y = np.minimum(a, b) if k.sub == "MIN" else np.maximum(a, b)
            return self.output(k, y)
        if k.sub == "SHR":
            sh_ = np.clip(b, 0, 63)
            if k.rounding == "NATURAL":
                y = np.where(sh_ > 0, (a + (np.int64(1) << np.maximum(sh_ - 1, 0))) >> sh_, a)
            elif k.rounding == "TRUNCATE":
                y = a >> sh_
            else:
                y = rdp(a, sh_)
            return self.output(k, y)
        if k.sub == "SHL":
            y = a << np.clip(b, 0, 31)
            y = ((y + (1 << 31)) & 0xFFFFFFFF) - (1 << 31)  # 32-bit wrap
            return self.output(k, y)
        if k.sub == "MUL":
            sc, sh = k.ofm_scale
            if k.ifm.bits == 32:
                sc = 1  # 32-bit operands: the product is only shifted (rounded); the multiplier field of OFM_SCALE is not applied
            y = apply_scale(a * b, sc, sh, k.rounding)
            return self.output(k, y)
        if k.sub in ("ADD", "SUB"):
            mode = k.ifm_scale_mode
            osc, osh = k.ofm_scale
            pa_sc, pa_sh = k.opa_scale
            pb_sc, _ = k.opb_scale
            if mode == 0:
                # 16-bit operand scales, no input shift
                ta = a * pa_sc
                tb = b * pb_sc
            else:
                # one operand is rescaled with a 32-bit scale/shift (which already contains the fixed input left shift of 20
                # bits and the factor 1/2 of the reference scheme); the other one is only shifted left by 20 - 1
                ls = 20 if k.ifm.bits == 8 else 15
                scaled_is_a = (mode == 1)
                # OPA / OPB name the first / second operand of the arithmetic (after operand reversal)
                if scaled_is_a:
                    ta = scale_tfl(a, pa_sc, pa_sh)
                    tb = b * (1 << (ls - 1))
                else:
                    ta = a * (1 << (ls - 1))
                    tb = scale_tfl(b, pa_sc, pa_sh)
            s = ta + tb if k.sub == "ADD" else ta - tb
            y = apply_scale(s, osc, osh, k.rounding)
            return self.output(k, y)
        raise NotModelled("elementwise " + k.sub)

    def run(self, prog):
        for it in prog:
            if isinstance(it, Wait):
                continue
            if isinstance(it, DmaOp):
                data = self.m.read_bytes(it.src[0], it.src[1], it.len).copy()
                self.m.write_bytes(it.dst[0], it.dst[1], data)
                continue
            k = it
            if k.kind == "CONV":
                y = self.conv(k, False)
            elif k.kind == "DEPTHWISE":
                y = self.conv(k, True)
            elif k.kind == "POOL":
                y = self.pool(k)
            elif k.kind == "ELEMENTWISE":
                y = self.elementwise(k)
            else:
                raise NotModelled(k.kind)
            self.m.write_elems(k.ofm, (0, k.oh, 0, k.ow, 0, k.oc), y)
            if TRACE:
                print("TRACE op", k.idx, k.kind, getattr(k, "sub", None), "ofm_scale", k.ofm_scale, k.rounding, "bcast", hex(k.bcast), "scalar", k.scalar,
                      "y[0,0,:8]", np.asarray(y)[0, 0, :8].tolist())
            # the operation's working memory (IFM buffers, accumulators) inside the lookup-table area no longer holds a table
            lo_, hi_ = self.hw["lut_addr"], min(self.hw["shram_bytes"], self.hw["lut_addr"] + HW.LUT_BYTES)
            for a_, b_ in HW.shram_work_ranges(k, self.acc):
                a_, b_ = max(a_, lo_), min(b_, hi_)
                if a_ < b_:
                    junk = ((np.arange(a_, b_, dtype=np.int64) * 37 + k.idx * 11 + 5) & 0xFF).astype(np.uint8)
                    self.m.write_bytes(HW.SHRAM_REGION, a_, junk)
