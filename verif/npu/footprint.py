"""Exact footprints: byte addresses touched by each block job (four-tile rule, NHWC / NHCWB16 brick arithmetic)."""
import numpy as np


def elem_addrs(f, y0, y1, x0, x1, c0, c1):
    """int64 array [ny, nx, nc] of the start address of every element of box [y0,y1)x[x0,x1)x[c0,c1) of feature map f."""
    ys = np.arange(y0, y1, dtype=np.int64)
    xs = np.arange(x0, x1, dtype=np.int64)
    cs = np.arange(c0, c1, dtype=np.int64)
    Y, X = np.meshgrid(ys, xs, indexing="ij")
    right = X >= f.w0
    lower = np.where(right, Y >= f.h1, Y >= f.h0)
    t = right.astype(np.int64) + 2 * lower.astype(np.int64)
    yy = Y - np.where(lower, np.where(right, f.h1, f.h0), 0)
    xx = X - np.where(right, f.w0, 0)
    base = np.array(f.base, dtype=np.int64)[t]
    if f.nhcwb16:
        cpart = (cs // 16) * f.sc + (cs % 16) * f.es
        a = base[..., None] + yy[..., None] * f.sy + xx[..., None] * f.sx + cpart  # STRIDE_X is honoured (transposed writes)
    else:
        a = base[..., None] + yy[..., None] * f.sy + xx[..., None] * f.sx + cs * f.es
    return a


def byte_addrs(f, box):
    a = elem_addrs(f, *box).ravel()
    if f.es == 1:
        return a
    return (a[:, None] + np.arange(f.es, dtype=np.int64)).ravel()


def tiles_used(f, box):
    y0, y1, x0, x1, _, _ = box
    used = set()
    for y in (y0, y1 - 1):
        for x in (x0, x1 - 1):
            right = x >= f.w0
            lower = (y >= f.h1) if right else (y >= f.h0)
            used.add(int(right) + 2 * int(lower))
    if x0 < f.w0 <= x1 - 1:
        used.update({0, 1} if y0 < min(f.h0, f.h1) else set())
    return used


def jobs(k):
    """OFM blocks in hardware order: depth fastest, then width, then height.  -> list of (y0,y1,x0,x1,c0,c1)."""
    nby, nbx, nbz = -(-k.oh // k.bh), -(-k.ow // k.bw), -(-k.oc // k.bc)
    out = []
    for by in range(nby):
        for bx in range(nbx):
            for bz in range(nbz):
                out.append((by * k.bh, min(k.oh, (by + 1) * k.bh), bx * k.bw, min(k.ow, (bx + 1) * k.bw), bz * k.bc,
                            min(k.oc, (bz + 1) * k.bc)))
    return out


def sub_jobs(k):
    """Hardware jobs of a kernel operation, in order: OFM block -> IFM depth slice (CONV only) -> sub-kernel row -> sub-kernel
    column (kernels larger than 8x8 dilated elements are decomposed).  -> list of (block index, depth slice (c0,c1)|None,
    (ky0,ky1,kx0,kx1) dilated-kernel window, is_last_of_block)."""
    blocks = jobs(k)
    out = []
    if k.kind == "ELEMENTWISE":
        return [(bi, None, None, True) for bi in range(len(blocks))], blocks
    if k.kind == "CONV" or (k.kind == "POOL" and k.sub == "REDUCE_SUM"):
        # IFM depth is traversed in IFM-block-depth slices, accumulating: 256 bits per position (half in part-kernel mode)
        sd = (8 * 32) // k.ifm.bits
        if k.part_kernel and k.ifm.bits == 8:
            sd = 16
        slices = [(c, min(k.ic, c + sd)) for c in range(0, k.ic, sd)]
    else:
        slices = [None]
    wins = [(ky, min(k.kh, ky + 8), kx, min(k.kw, kx + 8)) for ky in range(0, k.kh, 8) for kx in range(0, k.kw, 8)]
    for bi in range(len(blocks)):
        n = len(slices) * len(wins)
        i = 0
        for sl in slices:
            for w in wins:
                i += 1
                out.append((bi, sl, w, i == n))
    return out, blocks


def ifm_box(k, j, sl=None, win=None):
    """Minimal IFM box the hardware must read for OFM block j (restricted to depth slice sl and dilated-kernel window win):
    the receptive field clipped to the IFM."""
    y0, y1, x0, x1, c0, c1 = j
    if k.kind == "ELEMENTWISE":
        return (y0, y1, x0, x1, c0, c1)
    f = 2 if k.up else 1
    ky0, ky1, kx0, kx1 = win if win is not None else (0, k.kh, 0, k.kw)
    ylo = max(0, y0 * k.sy - k.pt + ky0)
    yhi = min(k.ih_up, (y1 - 1) * k.sy - k.pt + ky1)
    xlo = max(0, x0 * k.sx - k.pl + kx0)
    xhi = min(k.iw_up, (x1 - 1) * k.sx - k.pl + kx1)
    if yhi <= ylo or xhi <= xlo:
        return None
    iy0, iy1 = ylo // f, (yhi - 1) // f + 1
    ix0, ix1 = xlo // f, (xhi - 1) // f + 1
    if k.kind == "CONV" or (k.kind == "POOL" and k.sub == "REDUCE_SUM"):
        cc = sl if sl is not None else (0, k.ic)
    else:
        cc = (c0, c1)
    return (iy0, iy1, ix0, ix1, cc[0], cc[1])


def ifm2_box(k, j):
    y0, y1, x0, x1, c0, c1 = j
    if k.bcast & 1:
        y0, y1 = 0, 1
    if k.bcast & 2:
        x0, x1 = 0, 1
    if k.bcast & 4:
        c0, c1 = 0, 1
    return (y0, y1, x0, x1, c0, c1)


def job_reads(k, j, sl=None, win=None):
    """-> list of (region, byte address array)."""
    out = []
    b = ifm_box(k, j, sl, win)
    if b is not None:
        out.append((k.ifm.region, byte_addrs(k.ifm, b)))
    if k.ifm2 is not None and not (k.bcast & 0x80):
        out.append((k.ifm2.region, byte_addrs(k.ifm2, ifm2_box(k, j))))
    return out


def job_writes(k, j):
    return [(k.ofm.region, byte_addrs(k.ofm, j))]


def const_ranges(k):
    """weight and scale byte ranges: list of (what, core, region, base, length)."""
    out = []
    for core, (reg, base, ln) in enumerate(k.weights):
        if ln:
            out.append(("weights", core, reg, base, ln))
    for core, (reg, base, ln) in enumerate(k.scales):
        if ln:
            out.append(("scales", core, reg, base, ln))
    return out
