"""C10 oracle over the recorded stripe history of one compilation (records of t1seam.StripeSeam).

For every source operator (``ps``) of every emitted stream:

* partition - the OFM boxes of its stripes / depth slices tile the region the operator has to write (the whole OFM, or
  write offset + write shape for an operator writing into a concatenation) with no gap and no overlap;
* receptive field (convolution, depthwise, pooling without up-scaling) - for each stripe the first IFM row, the top padding
  and the bottom padding handed on are exactly those of the kernel windows of the stripe's output rows, recomputed here from
  kernel, stride, dilation, the operator's original top padding, and the read offset / shape of a fused slice; the IFM box
  must contain every row those windows touch.  (An IFM box that extends beyond the last needed row is not judged here: the
  hardware never reads those rows; when it makes a cascade overwrite a live rolling-buffer row the value and tag oracles
  report it.)
"""
import numpy as np

RF_BLOCK_TYPES = ("ConvolutionMxN", "ConvolutionDepthWise", "Pooling")


def _v(oracle, r, **kw):
    d = dict(prop="C10", oracle=oracle, op_name=r.get("name"), op_type=r.get("op"), block_type=r.get("bt"))
    d.update(kw)
    return d


def _rf_applicable(r):
    return not (r["bt"] not in RF_BLOCK_TYPES or r.get("resampling") not in ("NONE", "") or r.get("explicit_padding") is None
                or r.get("ifm_box") is None or len(r["ifm_box"][0]) != 4 or r.get("ifm_shape") is None
                or r["op"] in ("Conv2DBackpropInputSwitchedBias", "Conv2DBackpropInput"))


def _needed_rows(r):
    """-> (oy0, oy1, pad_top, pad_bottom, first IFM row, last IFM row (exclusive), original top padding, visible IFM height, read
    offset) of the kernel windows of the stripe's output rows, or None when not applicable"""
    if not _rf_applicable(r):
        return None
    k = r["kernel"]
    kdh = (k["h"] - 1) * k["dy"] + 1
    wo = r["write_offset"][1] if r.get("write_offset") is not None else 0
    ro = r["read_offset"][1] if r.get("read_offset") is not None else 0
    H = r["read_shape"][1] if r.get("read_shape") is not None else r["ifm_shape"][1]
    oy0, oy1 = r["ofm_box"][0][1] - wo, r["ofm_box"][1][1] - wo
    if oy1 <= oy0:
        return None
    top = r["explicit_padding"][0]
    win_start = oy0 * k["sy"] - top
    win_end = (oy1 - 1) * k["sy"] - top + kdh
    return (oy0, oy1, max(0, -win_start), max(0, win_end - H), max(win_start, 0) + ro, min(win_end, H) + ro, top, H, ro)


def check_stream(recs, max_elems=4_000_000):
    """recs: list of records of one stream (kernel stripes 'k'=='s' and DMAs).  -> (violations, counters)"""
    viol = []
    cnt = dict(t1_ops=0, t1_stripes=0, t1_striped_ops=0, t1_depth_sliced_ops=0, t1_rf_checked=0, t1_rf_skipped=0, t1_partition_checked=0,
               t1_partition_skipped=0)
    groups = {}
    for r in recs:
        if r is not None and r.get("k") == "s":
            groups.setdefault(r["ps"], []).append(r)
    for ps, rs in sorted(groups.items()):
        cnt["t1_ops"] += 1
        cnt["t1_stripes"] += len(rs)
        r0 = rs[0]
        heights = set((r["ofm_box"][0][1], r["ofm_box"][1][1]) for r in rs)
        depths = set((r["ofm_box"][0][3], r["ofm_box"][1][3]) for r in rs)
        cnt["t1_striped_ops"] += int(len(heights) > 1)
        cnt["t1_depth_sliced_ops"] += int(len(depths) > 1)
        # ---- partition
        shp = r0.get("ofm_shape")
        if shp is None or len(shp) != 4 or any(len(r["ofm_box"][0]) != 4 for r in rs) or int(np.prod(shp)) > max_elems or int(np.prod(shp)) <= 0:
            cnt["t1_partition_skipped"] += 1
        else:
            if r0.get("write_offset") is not None and r0.get("write_shape") is not None:
                lo = list(r0["write_offset"])
                hi = [a + b for a, b in zip(r0["write_offset"], r0["write_shape"])]
                full = [max(h, s) for h, s in zip(hi, shp)]
            else:
                lo, hi, full = [0, 0, 0, 0], list(shp), list(shp)
            cover = np.zeros(full, np.int16)
            bad_box = None
            for r in rs:
                s, e = r["ofm_box"]
                if any(a < 0 or b > f or a > b for a, b, f in zip(s, e, full)):
                    bad_box = r
                    continue
                cover[s[0]:e[0], s[1]:e[1], s[2]:e[2], s[3]:e[3]] += 1
            cnt["t1_partition_checked"] += 1
            want = np.zeros(full, np.int16)
            want[lo[0]:hi[0], lo[1]:hi[1], lo[2]:hi[2], lo[3]:hi[3]] = 1
            if bad_box is not None:
                viol.append(_v("stripe_box_outside_ofm", bad_box, ofm_box=bad_box["ofm_box"], ofm_shape=shp))
            gap = (cover == 0) & (want == 1)
            over = cover > 1
            stray = (cover >= 1) & (want == 0)
            if gap.any() and not r0.get("ofm_leaves_stream", True):
                # inside a cascade a producer legitimately stops at the last row its consumers need: only elements that a later
                # stripe of this stream reads (exact receptive field where it can be recomputed, IFM box otherwise) count
                needed = np.zeros(full, bool)
                tid = r0["ofm"][0] if r0.get("ofm") else None
                for c in recs:
                    if c is None or c.get("k") != "s" or c["ps"] == ps:
                        continue
                    for key, bkey in (("ifm", "ifm_box"), ("ifm2", "ifm2_box")):
                        if c.get(key) and c[key][0] == tid and c.get(bkey) and len(c[bkey][0]) == 4:
                            s_, e_ = [list(x) for x in c[bkey]]
                            rf = _needed_rows(c) if key == "ifm" else None
                            if rf is not None:
                                s_[1], e_[1] = rf[4], rf[5]
                            s_ = [max(0, min(a, f)) for a, f in zip(s_, full)]
                            e_ = [max(0, min(b, f)) for b, f in zip(e_, full)]
                            needed[s_[0]:e_[0], s_[1]:e_[1], s_[2]:e_[2], s_[3]:e_[3]] = True
                unread = gap & ~needed
                cnt["t1_cascade_rows_not_produced"] = cnt.get("t1_cascade_rows_not_produced", 0) + int(unread.any())
                gap = gap & needed
            if gap.any():
                i = [int(x[0]) for x in np.nonzero(gap)]
                viol.append(_v("stripe_partition_gap", r0, first=i, n_elems=int(gap.sum()), region=[lo, hi], n_stripes=len(rs)))
            if over.any():
                i = [int(x[0]) for x in np.nonzero(over)]
                viol.append(_v("stripe_partition_overlap", r0, first=i, n_elems=int(over.sum()), region=[lo, hi], n_stripes=len(rs)))
            if stray.any():
                i = [int(x[0]) for x in np.nonzero(stray)]
                viol.append(_v("stripe_outside_write_region", r0, first=i, n_elems=int(stray.sum()), region=[lo, hi], n_stripes=len(rs)))
        # ---- receptive field in H
        for r in rs:
            if not _rf_applicable(r):
                cnt["t1_rf_skipped"] += 1
                continue
            k = r["kernel"]
            nr = _needed_rows(r)
            if nr is None:
                continue
            oy0, oy1, exp_top, exp_bottom, exp_first, exp_last, top, H, ro = nr
            got_first, got_last = r["ifm_box"][0][1], r["ifm_box"][1][1]
            cnt["t1_rf_checked"] += 1
            facts = dict(ofm_rows=[oy0, oy1], kernel=k, orig_pad_top=top, ifm_height=H, read_offset=ro, expected=dict(first_row=exp_first, last_row_excl=exp_last,
                         pad_top=exp_top, pad_bottom=exp_bottom), got=dict(first_row=got_first, last_row_excl=got_last, pad_top=r["pad_top"], pad_bottom=r["pad_bottom"]),
                         first=r["first"], last=r["last"])
            if exp_last <= exp_first:
                continue  # window entirely in the padding: nothing to compare
            if r["pad_top"] != exp_top or got_first != exp_first:
                viol.append(_v("stripe_top_not_receptive_field", r, **facts))
            elif r["pad_bottom"] != exp_bottom:
                viol.append(_v("stripe_pad_bottom_not_receptive_field", r, **facts))
            elif got_last < exp_last:
                viol.append(_v("stripe_ifm_box_misses_rows", r, **facts))
    return viol, cnt
