"""Checks decided on programs built through the public API (ethosu.vela.api) and run on the driver / NPU peers."""
import copy
import struct

import numpy as np

from . import apigen, check, checks_net, driver, hwspec as HW, netgen, seeds
from .npu import engine as E
from .npu import regs as R

PRE = E.INPUT0  # "defined before the stream starts"


def api_memory(wl):
    ext = apigen.extents(wl)
    mem = E.Memory()
    for reg in (0, 1, 2):
        mem.add_space("r%d" % reg, ext[reg], E.CONST if reg == 0 else PRE)
        mem.map_region(reg, "r%d" % reg, 0, ext[reg])
    acc = HW.API_ACCEL[wl["acc"]]
    mem.add_space("shram", HW.ACCEL[acc]["shram_bytes"], PRE)
    mem.map_region(HW.SHRAM_REGION, "shram", 0, HW.ACCEL[acc]["shram_bytes"])
    return mem


def generate(wl):
    """-> dict(words | None, exc info).  Runs the real generator."""
    from ethosu.vela import api

    acc_enum = getattr(api.NpuAccelerator, wl["acc"])
    ops, kept = [], []
    for d in wl["ops"]:
        try:
            ops.append(apigen.make_op(api, d, acc_enum))
            kept.append(d)
        except AssertionError:
            # the block-configuration query offers nothing for this operation (it asserts): not an operation the generator
            # can be given; dropped from the list (in place, so that callers keep comparing like with like)
            pass
    wl["ops"][:] = kept
    try:
        words = api.npu_generate_register_command_stream(ops, acc_enum)
        return dict(words=[int(w) for w in words], ops=ops, api=api, acc_enum=acc_enum)
    except Exception as e:  # noqa
        from .compile import exc_site

        return dict(words=None, exc_type=type(e).__name__, msg=str(e)[:300], site=exc_site(e), ops=ops, api=api, acc_enum=acc_enum)


def op_kinds(wl):
    return [d["t"] + ("/" + d["sub"] if d.get("sub") else "") for d in wl["ops"]]


def minimise_oplist(chk, desc, sig, budget=40):
    """drop operations while the same violation persists"""
    best = desc
    n = 0
    changed = True
    while changed and n < budget:
        changed = False
        for i in range(len(best["wl"]["ops"]) - 1, -1, -1):
            if len(best["wl"]["ops"]) <= 1 or n >= budget:
                break
            cand = copy.deepcopy(best)
            del cand["wl"]["ops"][i]
            n += 1
            if chk.still_fails(cand, sig):
                best = cand
                changed = True
    return best


class ApiCheck(check.Check):
    n_swarm = {"quick": 6, "thorough": 16}
    components = {"real": ["ethosu.vela.api: npu_find_block_configs, npu_generate_register_command_stream, npu_create_driver_payload"],
                  "model": ["register-file model / decoder", "NPU async engine", "driver payload parser"], "stub": []}
    assumptions = ["NPU concurrency rules and footprints of DESIGN.md 3.5", "hwspec constants"]

    def gen_workload(self, r, tier):
        acc = r.choice(apigen.ACCS)
        return apigen.gen_oplist(r, acc, n_ops=r.randint(2, 12 if tier == "quick" else 40), dma_p=r.choice([0.2, 0.35, 0.5]))

    def gen_case(self, seed, i, tier):
        r = seeds.rng(seed, self.pid, "api", i)
        return dict(wl=self.gen_workload(r, tier), seed=seeds.derive(seed, self.pid, "sched", i), n_swarm=self.n_swarm[tier])

    def case_layers(self, desc):
        return op_kinds(desc["wl"]) if "wl" in desc else super().case_layers(desc)

    def minimise(self, desc, sig):
        return minimise_oplist(self, desc, sig) if "wl" in desc else desc


# ======================================================================================================== C04 (API + nets)
def run_api_async(desc):
    wl = desc["wl"]
    g = generate(wl)
    out = dict(viol=[], counters={}, key=seeds.digest(wl), nontrivial=False, evaluations=1)
    if g["words"] is None:
        out["outcome"] = "generator_rejected:" + g["exc_type"]
        return out, None
    acc = HW.API_ACCEL[wl["acc"]]
    prog, info = R.build_program(g["words"], acc)
    prep = E.Prepared(prog, acc)
    mem0 = api_memory(wl)
    ref = E.Run(prep, mem0.clone(), None, E.SEQUENTIAL).run()
    kinds = op_kinds(wl)
    for v in ref.viol:
        v["schedule"] = "sequential"
        out["viol"].append(v)
    r = seeds.rng(desc["seed"], "policies")
    pols = [E.draw_policy(r) for _ in range(desc["n_swarm"])] + E.extreme_policies()
    st = dict(schedules=1, steps=ref.steps, overlap_states=0, kernel_overlap_jobs=0, burst_splits=0, interleavings=set(), states=0,
              max_kernel_inflight=0, max_dma_inflight=0)
    for pi, pol in enumerate(pols):
        run = E.Run(prep, mem0.clone(), seeds.rng(desc["seed"], "schedule", pi), pol).run()
        st["schedules"] += 1
        st["steps"] += run.steps
        for k in ("overlap_states", "kernel_overlap_jobs", "burst_splits"):
            st[k] += run.stats[k]
        for k in ("max_kernel_inflight", "max_dma_inflight"):
            st[k] = max(st[k], run.stats[k])
        st["interleavings"].add(run.event_digest())
        st["states"] += len(run.states)
        new = [v for v in run.viol if not any(v.get("oracle") == w.get("oracle") and v.get("op") == w.get("op") for w in ref.viol)]
        for v in new:
            if v.get("prop") == "C03":
                v["prop"] = "C04"
                v["oracle"] = "async_" + v["oracle"]
        new += E.compare_runs(ref, run)
        for v in new:
            v["schedule"] = pol.get("name")
            v["policy_index"] = pi
            out["viol"].append(v)
    for v in out["viol"]:
        i = v.get("op")
        if isinstance(i, int) and 0 <= i < len(prog):
            v["kind"] = getattr(prog[i], "kind", "?") + ("/" + prog[i].sub if getattr(prog[i], "sub", None) else "")
        v["sig"] = dict(oracle=v.get("oracle"), kind=v.get("kind"), path="api")
        v["layers"] = kinds
    st["interleavings"] = len(st["interleavings"])
    out["counters"] = {k: v for k, v in st.items()}
    out["counters"]["probe"] = dict(dma_and_kernel_in_flight=int(st["overlap_states"] > 0), two_kernels_in_flight=int(st["max_kernel_inflight"] >= 2),
                                    two_dma_in_flight=int(st["max_dma_inflight"] >= 2), kernel_job_overlap=int(st["kernel_overlap_jobs"] > 0),
                                    waits_emitted=int(any(isinstance(p, R.Wait) and p.kind in ("DMA_WAIT", "KERNEL_WAIT") for p in prog)))
    for p in prog:
        if getattr(p, "is_kernel", False):
            out["counters"]["probe"]["blockdep_%d" % p.blockdep] = 1
    out["evaluations"] = st["schedules"]
    out["nontrivial"] = prep.n_kernel + prep.n_dma >= 2
    out["outcome"] = "generated"
    out["sample"] = dict(acc=wl["acc"], ops=kinds, words=len(g["words"]), schedules=st["schedules"])
    return out, (prog, g)


class C04(checks_net.C04net, ApiCheck):
    """primary quantifier: all operation lists accepted by the public generator; plus streams emitted for networks"""
    pid = "C04"
    quick = dict(cases=1800, budget=90, timeout=120)
    thorough = dict(cases=40000, budget=1500, timeout=300)
    rule = ("(A) seeded legal NpuOperation lists (2..12 ops quick / ..40 thorough; DMA/kernel mixes, shared address pool, layouts, tiles, LUT and weight "
            "buffers, 6 accelerators) through npu_generate_register_command_stream and (B) streams of compiled netgen networks; each stream executed "
            "sequentially and under seeded swarm + 8 extreme stall policies; distinct = digest(workload); non-trivial = >= 2 NPU/DMA operations")
    components = {"real": ["npu_generate_register_command_stream (A)", "whole compiler (B)"], "model": ["NPU async engine", "runtime peer (B)"], "stub": []}

    def __init__(self):
        pass

    def gen_case(self, seed, i, tier):
        if i % 3 == 2:
            return checks_net.C04net.gen_case(self, seed, i, tier)
        return ApiCheck.gen_case(self, seed, i, tier)

    def case_layers(self, desc):
        return op_kinds(desc["wl"]) if "wl" in desc else [L["op"] for L in desc["recipe"]["layers"]]

    def run_case(self, desc):
        if "wl" in desc:
            return run_api_async(desc)[0]
        return checks_net.C04net.run_case(self, desc)

    def minimise(self, desc, sig):
        if "wl" in desc:
            return minimise_oplist(self, desc, sig)
        return checks_net.C04net.minimise(self, desc, sig)


# ======================================================================================================== C06
def fm_expected(prefix, f, es_bits=None):
    bits = apigen.DT_BITS[f["dt"]]
    exp = {}
    exp[prefix + "_REGION"] = f["region"]
    t = f["tiles"]
    for i in range(4):
        exp[prefix + "_BASE%d" % i] = t[3][i]
    exp[prefix + "_HEIGHT0_M1"] = (t[0] - 1) & 0xFFFF
    exp[prefix + "_HEIGHT1_M1"] = (t[1] - 1) & 0xFFFF
    exp[prefix + "_WIDTH0_M1"] = (t[2] - 1) & 0xFFFF
    sy, sx, sc = f.get("strides") or apigen.default_strides(f["shape"], f["layout"], bits)
    exp[prefix + "_STRIDE_Y"], exp[prefix + "_STRIDE_X"], exp[prefix + "_STRIDE_C"] = sy, sx, sc
    exp[prefix + "_ZERO_POINT"] = (f["q"][1] if f.get("q") else 0) & 0xFFFF
    return exp


def expected_regs(d, acc):
    """Simple (non-derived) register fields of an operation, by /verif's own encoding table.  Values are what the register
    file must hold at the NPU_OP; precision registers are returned with a mask."""
    exp, masks = {}, {}
    if d["t"] == "dma":
        exp["DMA0_SRC_REGION"] = d["src"][0] & 0xFFFF
        exp["DMA0_SRC"] = d["src"][1]
        exp["DMA0_DST_REGION"] = d["dst"][0] & 0xFFFF
        exp["DMA0_DST"] = d["dst"][1]
        exp["DMA0_LEN"] = d["src"][2]
        return exp, masks
    ifm, ofm = d["ifm"], d["ofm"]
    exp.update(fm_expected("IFM", ifm))
    exp["IFM_DEPTH_M1"] = ifm["shape"][2] - 1
    p = (1 if apigen.DT_SIGNED[ifm["dt"]] else 0) | ({8: 0, 16: 1, 32: 2}[apigen.DT_BITS[ifm["dt"]]] << 2) | ((1 << 6) if ifm["layout"] == "NHCWB16" else 0)
    exp["IFM_PRECISION"] = p
    masks["IFM_PRECISION"] = 0x4F
    exp["IFM_UPSCALE"] = {"NONE": 0, "NEAREST": 1, "TRANSPOSE": 2}[d.get("up") or "NONE"]
    exp.update(fm_expected("OFM", ofm))
    exp["OFM_HEIGHT_M1"], exp["OFM_WIDTH_M1"], exp["OFM_DEPTH_M1"] = ofm["shape"][0] - 1, ofm["shape"][1] - 1, ofm["shape"][2] - 1
    p = (1 if apigen.DT_SIGNED[ofm["dt"]] else 0) | ({8: 0, 16: 1, 32: 2}[apigen.DT_BITS[ofm["dt"]]] << 1) | ((1 << 6) if ofm["layout"] == "NHCWB16" else 0)
    p |= {"TFL": 0, "TRUNCATE": 1, "NATURAL": 2}[d.get("rounding") or "TFL"] << 14
    exp["OFM_PRECISION"] = p
    masks["OFM_PRECISION"] = 0xC047
    if d["t"] != "ew":
        kw, kh, sx, sy, dx, dy = d["kernel"]
        exp["KERNEL_HEIGHT_M1"] = dy * (kh - 1)
        exp["KERNEL_WIDTH_M1"] = dx * (kw - 1)
        ks = ((sx - 1) & 1) | (((sy - 1) & 1) << 1) | (((sx - 1) >> 1) << 6) | (((sy - 1) >> 1) << 9) | ((dx - 1) << 3) | ((dy - 1) << 4)
        if d["t"] == "conv" and d.get("traversal") == "PART_KERNEL_FIRST":
            ks |= 4
        exp["KERNEL_STRIDE"] = ks
        pt, pl, pb, pr = d["pad"]
        exp["IFM_PAD_TOP"], exp["IFM_PAD_LEFT"], exp["IFM_PAD_BOTTOM"], exp["IFM_PAD_RIGHT"] = pt, pl, pb, pr
    if d.get("weights"):
        exp["WEIGHT_REGION"] = d["weights"][0][0]
        exp["SCALE_REGION"] = d["biases"][0][0]
        for core, (w, b) in enumerate(zip(d["weights"], d["biases"])):
            sfx = "" if core == 0 else "1"
            exp["WEIGHT%s_BASE" % sfx] = w[1]
            exp["WEIGHT%s_LENGTH" % sfx] = (w[2], 0)
            exp["SCALE%s_BASE" % sfx] = b[1]
            exp["SCALE%s_LENGTH" % sfx] = (b[2], 0)
        if acc is not None and HW.ACCEL[acc]["cores"] == 2 and len(d["weights"]) == 1:
            # a present core without a stream of its own must be told so: length 0 (its base is then of no consequence)
            exp["WEIGHT1_LENGTH"] = (0, 0)
            exp["SCALE1_LENGTH"] = (0, 0)
    a = d.get("act") or {}
    if a.get("type") == "TABLE_LOOKUP":
        exp["ACTIVATION"] = 16 + a["lut"]
        masks["ACTIVATION"] = 0x1F
    elif a.get("type", "NONE") == "NONE":
        exp["ACTIVATION"] = 0
        masks["ACTIVATION"] = 0x1F
    if a.get("min") is None and "ACTIVATION" in exp and a.get("type", "NONE") == "NONE":
        lo, hi = apigen.DT_RANGE[ofm["dt"]]
        exp["ACTIVATION_MIN"] = max(lo, -32768) & 0xFFFF
        if a.get("max") is None:
            exp["ACTIVATION_MAX"] = min(hi, 32767) & 0xFFFF
    if "_block" in d or d.get("block"):
        bh, bw, bd = d.get("block") or d["_block"]
        exp["OFM_BLK_HEIGHT_M1"], exp["OFM_BLK_WIDTH_M1"], exp["OFM_BLK_DEPTH_M1"] = bh - 1, bw - 1, bd - 1
    if d["t"] == "ew" and d.get("ifm2") is not None:
        f2 = d["ifm2"]
        if d.get("scalar") is None:
            exp.update(fm_expected("IFM2", f2))
            bc = 0
            for bit, i in ((1, 0), (2, 1), (4, 2)):
                if ifm["shape"][i] != f2["shape"][i]:
                    bc |= bit
            exp["IFM2_BROADCAST"] = bc | (0x40 if d.get("reversed") else 0)
            masks["IFM2_BROADCAST"] = 0xC7
        else:
            exp["IFM2_BROADCAST"] = 0x80 | (0x40 if d.get("reversed") else 0)
            masks["IFM2_BROADCAST"] = 0xC0
        p2 = (1 if apigen.DT_SIGNED[f2["dt"]] else 0) | ({8: 0, 16: 1, 32: 2}[apigen.DT_BITS[f2["dt"]]] << 2) | ((1 << 6) if f2["layout"] == "NHCWB16" else 0)
        exp["IFM2_PRECISION"] = p2
        masks["IFM2_PRECISION"] = 0x4F
    return exp, masks


def ew_value_violation(d, it, wl, acc, seed):
    """Semantic half of C06 for ADD / SUB / MUL on 8- and 16-bit maps: the registers of the operation - operand scaling mode, OPA /
    OPB / OFM scales, operand order, zero points, clamp - are executed by the datapath peer on random operand bytes and the result is
    compared with the operation as it was given (real-valued operands, rounded to the output quantisation), within one step (16
    bit: plus the amplification of the 15-bit operand alignment).  -> None | dict"""
    from .npu import arith

    if d["t"] != "ew" or d.get("sub") not in ("ADD", "SUB", "MUL") or d.get("ifm2") is None:
        return None
    fa, fb, fo = d["ifm"], d["ifm2"], d["ofm"]
    if any(f.get("q") is None for f in (fa, fb, fo)) or any(apigen.DT_BITS[f["dt"]] not in (8, 16) for f in (fa, fb, fo)):
        return None
    if (d.get("act") or {}).get("type", "NONE") != "NONE" or it.uses_lut or it.act in (3, 4):
        return None
    ext = apigen.extents(wl)
    if max(ext.values()) > (1 << 24):
        return None
    rs = np.random.RandomState(seed & 0x7FFFFFFF)
    regions = {}
    vm = arith.VMem(regions)
    for reg in (0, 1, 2):
        regions[reg] = ("r%d" % reg, 0, ext[reg], 0)
        vm.add("r%d" % reg, rs.randint(0, 256, size=ext[reg], dtype=np.uint8))
    vm.regions = regions
    shb = HW.ACCEL[acc]["shram_bytes"]
    regions[HW.SHRAM_REGION] = ("shram", 0, shb, 0)
    vm.add("shram", rs.randint(0, 256, size=shb, dtype=np.uint8))
    dp = arith.Datapath(acc, vm)
    try:
        y = np.asarray(dp.elementwise(it), np.int64)
        box = (0, it.oh, 0, it.ow, 0, it.oc)
        a = vm.read_elems(it.ifm, box).astype(np.float64)
        if d.get("scalar") is not None:
            rb = np.full(a.shape, float(d["scalar"]))
        else:
            h = 1 if it.bcast & 1 else it.oh
            w = 1 if it.bcast & 2 else it.ow
            c = 1 if it.bcast & 4 else it.oc
            rb = (np.broadcast_to(vm.read_elems(it.ifm2, (0, h, 0, w, 0, c)), a.shape).astype(np.float64) - fb["q"][1]) * float(np.float32(fb["q"][0]))
    except arith.NotModelled:
        return None
    ra = (a - fa["q"][1]) * float(np.float32(fa["q"][0]))
    first, second = (rb, ra) if d.get("reversed") else (ra, rb)
    real = first + second if d["sub"] == "ADD" else (first - second if d["sub"] == "SUB" else first * second)
    so, zo = float(np.float32(fo["q"][0])), fo["q"][1]
    lo, hi = apigen.DT_RANGE[fo["dt"]]
    act = d.get("act") or {}
    if act.get("min") is not None:
        lo = max(lo, int(np.floor(act["min"] / so + 0.5)) + zo)
    if act.get("max") is not None:
        hi = min(hi, int(np.floor(act["max"] / so + 0.5)) + zo)
    ref = np.clip(np.floor(real / so + 0.5) + zo, lo, hi)
    tol = 1.0
    if apigen.DT_BITS[fa["dt"]] == 16 and d["sub"] != "MUL":
        tol += np.ceil(2.0 * max(fa["q"][0], fb["q"][0]) / so)
    diff = np.abs(y - ref)
    # results far outside the output type (a product rescaled by a factor above 1, operands orders of magnitude coarser than the
    # output) saturate somewhere inside the scaling arithmetic; where exactly is not part of what the operation specifies
    diff = np.where(np.abs(real / so) < float(1 << 20), diff, 0)
    if diff.max() > tol:
        i = int(np.argmax(diff))
        return dict(max_abs_diff=float(diff.max()), tolerance=float(tol), got=int(y.ravel()[i]), ref=float(ref.ravel()[i]), n_diff=int((diff > tol).sum()), n=int(diff.size),
                    scale_mode=int(it.ifm_scale_mode), reversed=bool(d.get("reversed")))
    return False


def alignment_violations(it, acc):
    """hardware alignment rules on the decoded values of one operation"""
    out = []
    u65 = HW.ACCEL[acc]["product"] == 1
    if isinstance(it, R.DmaOp):
        internal_src, internal_dst = it.src[0] == HW.SHRAM_REGION, it.dst[0] == HW.SHRAM_REGION
        if not u65 or internal_src:
            if it.src[1] % 16:
                out.append("dma src address not 16-byte aligned")
        if not u65 or internal_dst:
            if it.dst[1] % 16:
                out.append("dma dst address not 16-byte aligned")
            if it.len % 16:
                out.append("dma length not a multiple of 16")
        return out
    for f in (it.ifm, it.ofm, it.ifm2):
        if f is None or (f is it.ifm2 and it.bcast & 0x80):
            continue
        for b in f.base:
            if f.nhcwb16 and b % 16:
                out.append(f"{f.which} NHCWB16 base not 16-byte aligned")
            if not f.nhcwb16 and b % f.es:
                out.append(f"{f.which} base not element aligned")
        if f.nhcwb16:
            if f.sy % 16 or f.sc % 16:
                out.append(f"{f.which} NHCWB16 stride not a multiple of 16")
        else:
            if f.sy % f.es or f.sx % f.es:
                out.append(f"{f.which} stride not a multiple of the element size")
    for reg, base, ln in it.weights + it.scales:
        if base % 16:
            out.append("weight/scale base not 16-byte aligned")
        if ln % 16:
            out.append("weight/scale length not a multiple of 16")
    return out


def regs_at(op):
    return op.regs


class C06(ApiCheck):
    pid = "C06"
    quick = dict(cases=3000, budget=90, timeout=120)
    thorough = dict(cases=80000, budget=1500, timeout=300)
    rule = ("seeded legal NpuOperation lists of length 1..12 (quick) / ..40 (thorough) whose consecutive operations share or differ in each register "
            "group (same buffers, shapes, scales; large addresses on U65) so that elision is exercised against many histories; the emitted words are "
            "decoded by a register-file model; distinct = digest(op list); non-trivial = >= 2 operations (some register elided)")

    def gen_workload(self, r, tier):
        acc = r.choice(apigen.ACCS)
        wl = apigen.gen_oplist(r, acc, n_ops=r.randint(1, 12 if tier == "quick" else 40), dma_p=r.choice([0.15, 0.3, 0.5]))
        ops = wl["ops"]
        # history stress: repeat / perturb earlier operations so that the same register receives equal and nearly-equal values
        for _ in range(r.choice([0, 1, 2, 3])):
            if not ops:
                break
            src = copy.deepcopy(r.choice(ops))
            src.pop("_block", None)
            m = r.random()
            if src["t"] == "dma" and "U65" in acc and m < 0.5 and src["dst"][0] != HW.SHRAM_REGION:
                src["src"][1] += (1 << 32) * r.choice([1, 2, 255])  # same low 32 bits, different high bits
            elif src["t"] == "ew" and m < 0.6:
                src["ofm"]["q"] = [src["ofm"]["q"][0] * r.choice([2.0, 0.5, 4.0]), src["ofm"]["q"][1]]  # same multiplier, different shift
            elif src["t"] in ("conv", "dw", "pool") and m < 0.5:
                src["pad"] = [min(1, p) if r.random() < 0.5 else p for p in src["pad"]]
            ops.insert(r.randint(0, len(ops)), src)
        # operations from the wide single-operation generator (large shapes and kernels, upscaling, int32, REDUCE_SUM, LUT):
        # register fields the small shared pool never exercises, spliced between pool operations so that they are also
        # emitted against a history (encoding only: their private addresses carry no dependency meaning)
        for _ in range(r.choice([0, 0, 1, 2, 3])):
            one = apigen.gen_single_op(r, acc)["ops"][0]
            ops.insert(r.randint(0, len(ops)), one)
        return wl

    def run_case(self, desc):
        wl = desc["wl"]
        g = generate(wl)
        out = dict(viol=[], counters={}, key=seeds.digest(wl), nontrivial=len(wl["ops"]) >= 2, evaluations=1)
        kinds = op_kinds(wl)
        if g["words"] is None:
            out["outcome"] = "generator_rejected:" + g["exc_type"]
            return out
        acc = HW.API_ACCEL[wl["acc"]]

        def V(oracle, **kw):
            v = dict(prop="C06", oracle=oracle, layers=kinds, **kw)
            v["sig"] = dict(oracle=oracle, reg=kw.get("reg"), kind=kw.get("kind"))
            out["viol"].append(v)

        try:
            prog, info = R.build_program(g["words"], acc)
        except R.StreamError as e:
            V("undecodable_stream:" + e.oracle, msg=str(e))
            return out
        items = [p for p in prog if not isinstance(p, R.Wait)]
        if len(items) != len(wl["ops"]):
            V("operation_count", got=len(items), want=len(wl["ops"]))
            return out
        # (e) exactly one STOP, last, param 0xFFFF
        stops = [p for p in prog if isinstance(p, R.Wait) and p.kind == "STOP"]
        if len(stops) != 1 or prog[-1] is not stops[0] or stops[0].n != 0xFFFF or info["trailing_sets"]:
            V("stop_command", n_stops=len(stops))
        elided = 0
        ew_checked = 0
        for i, (d, it) in enumerate(zip(wl["ops"], items)):
            kind = kinds[i]
            want_kind = {"dma": "DMA", "conv": "CONV", "dw": "DEPTHWISE", "pool": "POOL", "ew": "ELEMENTWISE"}[d["t"]]
            if it.kind != want_kind or (d.get("sub") and getattr(it, "sub", None) != d["sub"]):
                V("op_kind", index=i, got=it.kind + "/" + str(getattr(it, "sub", None)), kind=kind)
                continue
            regs = it.regs
            # (a) simple fields
            exp, masks = expected_regs(d, acc)
            for name, want in exp.items():
                got = regs.get(name)
                if isinstance(want, tuple):
                    ok = got == want
                else:
                    m = masks.get(name)
                    ok = got is not None and ((got & m) == (want & m) if m is not None and not isinstance(got, tuple) else got == want)
                if not ok:
                    V("field_mismatch", index=i, reg=name, got=got if not isinstance(got, int) else hex(got), want=want if not isinstance(want, int) else hex(want), kind=kind)
            # (b) history independence: same register image as when this operation is emitted alone
            solo_wl = dict(acc=wl["acc"], ops=[dict(d, block=d.get("block") or d.get("_block"))])
            sg = generate(solo_wl)
            if sg["words"] is not None:
                sprog, _ = R.build_program(sg["words"], acc)
                sit = [p for p in sprog if not isinstance(p, R.Wait)][0]
                set_names = [n for n, _ in sit.sets]
                elided += sum(1 for n in set_names if n not in [m_ for m_, _ in it.sets])
                for name in set_names:
                    if name in ("BLOCKDEP", "PARALLEL_MODE"):
                        continue
                    if regs.get(name) != sit.regs.get(name):
                        V("elision_changes_register", index=i, reg=name, got=str(regs.get(name)), solo=str(sit.regs.get(name)), kind=kind)
            # (a') what the registers compute is the operation that was given (elementwise ADD / SUB / MUL)
            ev = ew_value_violation(d, it, wl, acc, seeds.derive(desc.get("seed", 0) if isinstance(desc, dict) else 0, "ewval", i)) if d["t"] == "ew" else None
            if ev is not None:
                ew_checked += 1
                if ev:
                    V("elementwise_result_differs", index=i, kind=kind, **ev)
            # (c) alignment
            for msg in alignment_violations(it, acc):
                V("alignment", index=i, msg=msg, kind=kind)
            # (d) waits sit between the last SET of the operation and its NPU_OP
            j = it.idx - 1
            waits = []
            while j >= 0 and isinstance(prog[j], R.Wait) and prog[j].kind in ("DMA_WAIT", "KERNEL_WAIT"):
                waits.append(prog[j])
                j -= 1
            if waits and it.sets and max(w_ for _, w_ in it.sets) > min(w.word for w in waits):
                V("wait_before_sets", index=i, kind=kind)
        out["counters"]["registers_elided"] = elided
        out["counters"]["ops_checked"] = len(items)
        out["counters"]["elementwise_results_checked"] = ew_checked
        out["counters"]["probe"] = dict(some_register_elided=int(elided > 0), high_address=int(any(d["t"] == "dma" and d["src"][1] >= 1 << 32 for d in wl["ops"])))
        out["outcome"] = "generated"
        out["sample"] = dict(acc=wl["acc"], ops=kinds, words=len(g["words"]), registers_elided=elided)
        return out


# ======================================================================================================== C15
def shram_check(it, acc):
    """Independent validity test of the block configuration and SHRAM layout programmed for a kernel operation (DESIGN app. B)."""
    hw = HW.ACCEL[acc]
    out = []
    ub_h, ub_w, ub_d = hw["ofm_ub"]
    if it.bh < 1 or it.bw < 1 or it.bc < 1:
        out.append("non-positive block dimension")
    if it.kind != "ELEMENTWISE" or True:
        if it.bh % ub_h or it.bw % ub_w or it.bc % ub_d:
            if not (it.kind == "ELEMENTWISE"):
                out.append(f"block {it.bh}x{it.bw}x{it.bc} not a multiple of the micro-block {hw['ofm_ub']}")
    if it.bh > HW.OFM_BLOCK_MAX[0] or it.bw > HW.OFM_BLOCK_MAX[1] or it.bc > HW.OFM_BLOCK_MAX[2]:
        out.append("block larger than the maximum 32x64x128")
    usable = HW.usable_banks(acc, it.uses_lut)
    binary = it.kind == "ELEMENTWISE" and it.ifm2 is not None and not (it.bcast & 0x80)
    if not (2 <= it.ib_end):
        out.append("IB_END below the reserved output banks")
    if it.ib_end > it.ab_start:
        out.append("IFM buffer overlaps the accumulators (IB_END > AB_START)")
    if it.ab_start > usable:
        out.append("AB_START beyond the usable banks")
    # IFM block
    bits = it.ifm.bits
    if it.kind == "ELEMENTWISE":
        ifm_h, ifm_w, ifm_d = it.bh, it.bw, it.bc
        gran = hw["gran"][HW.GR_IFM32 if bits == 32 else (HW.GR_IFM8_EW if bits == 8 else HW.GR_IFM16_EW)]
    else:
        up = 2 if it.up else 1
        nearest = 1 if it.up == 1 else 0
        ifm_h = -(-((it.bh - 1) * it.sy + min(8, it.kh) + nearest) // up)
        ifm_w = -(-((it.bw - 1) * it.sx + min(8, it.kw) + nearest) // up)
        ifm_h = apigen.round_up(ifm_h, hw["ofm_ub"][0])
        ifm_w = apigen.round_up(ifm_w, hw["ofm_ub"][1])
        if it.kind == "CONV" or (it.kind == "POOL" and it.sub == "REDUCE_SUM"):
            # IFM block depth: 256 bits per position (128 in part-kernel mode), in units of the 8-byte IFM micro-block
            if bits == 16:
                ifm_d = apigen.round_up(min(it.ic, 16), 4)
            else:
                ifm_d = apigen.round_up(min(it.ic, 16 if it.part_kernel else 32), hw["ifm_ub"][2])
        else:
            ifm_d = it.bc
        gran = hw["gran"][HW.GR_IFM32 if bits == 32 else (HW.GR_IFM8 if bits == 8 else HW.GR_IFM16)]
    ifm_bytes = ifm_h * ifm_w * apigen.round_up(ifm_d * bits // 8, 8)
    ifm_banks = apigen.round_up(-(-ifm_bytes // 1024) * 2, gran)
    if it.kind == "ELEMENTWISE":
        need_end = 2 + ifm_banks
        if binary:
            if it.ib_start2 < need_end:
                out.append(f"IFM2 buffer starts at bank {it.ib_start2} inside the IFM buffer (needs {ifm_banks} banks from 2)")
            if it.ib_start2 + ifm_banks > usable:
                out.append("IFM2 buffer beyond the usable banks")
        elif need_end > usable:
            out.append("IFM buffer beyond the usable banks")
    else:
        if it.ib_end - 2 < ifm_banks:
            out.append(f"IFM buffer [2,{it.ib_end}) smaller than the double-buffered IFM block ({ifm_banks} banks)")
        acc_banks = HW.acc_banks(it, acc)
        if it.ab_start + acc_banks > usable:
            out.append(f"accumulators [{it.ab_start},{it.ab_start + acc_banks}) beyond the usable banks ({usable})")
    return out


class C15(ApiCheck):
    pid = "C15"
    quick = dict(cases=6000, budget=90, timeout=120)
    thorough = dict(cases=40000, budget=1500, timeout=300)
    rule = ("for seeded single operations (conv/depthwise/pool/elementwise; 8/16/32-bit; LUT; scalar/broadcast; upscaling) on 6 accelerators: EVERY "
            "configuration npu_find_block_configs offers is (1) checked against an independent transcription of the SHRAM rules after the generator "
            "emitted it and (2) must be accepted by the generator; plus the configurations used by multi-op lists; distinct = digest(op, accelerator); "
            "non-trivial = >= 1 configuration offered")

    def gen_workload(self, r, tier):
        acc = r.choice(apigen.ACCS)
        if r.random() < 0.7:
            return apigen.gen_single_op(r, acc)
        for _ in range(20):
            wl = apigen.gen_oplist(r, acc, n_ops=r.randint(1, 3), dma_p=0.0)
            ops = [d for d in wl["ops"] if d["t"] != "dma"]
            if ops:
                d = ops[0]
                if r.random() < 0.2 and d["t"] in ("conv", "dw", "pool") and d["t"] != "ew":
                    pass
                return dict(acc=acc, ops=[d])
        return dict(acc=acc, ops=wl["ops"][:1])

    def run_case(self, desc):
        wl = desc["wl"]
        out = dict(viol=[], counters={}, key=seeds.digest(wl), nontrivial=False, evaluations=0)
        from ethosu.vela import api

        acc_enum = getattr(api.NpuAccelerator, wl["acc"])
        acc = HW.API_ACCEL[wl["acc"]]
        d = wl["ops"][0]
        kinds = op_kinds(wl)
        if d["t"] == "dma":
            return out
        op0 = apigen.make_op(api, dict(d, block=[1, 1, 1]), acc_enum)
        try:
            cfgs = api.npu_find_block_configs(op0, acc_enum)
        except AssertionError:
            out["outcome"] = "no_config_offered"
            return out
        out["nontrivial"] = True
        maxn = desc.get("max_configs", 400)
        step = max(1, len(cfgs) // maxn)
        for c in cfgs[::step]:
            blk = [c.height, c.width, c.depth]
            g = generate(dict(acc=wl["acc"], ops=[dict(d, block=blk)]))
            out["evaluations"] += 1
            if g["words"] is None:
                out["viol"].append(dict(prop="C15", oracle="offered_config_rejected", block=blk, exc=g["exc_type"], msg=g["msg"], layers=kinds,
                                        sig=dict(oracle="offered_config_rejected", exc=g["exc_type"], kind=kinds[0])))
                continue
            prog, _ = R.build_program(g["words"], acc)
            it = [p for p in prog if getattr(p, "is_kernel", False)][0]
            if [it.bh, it.bw, it.bc] != blk:
                out["viol"].append(dict(prop="C15", oracle="block_registers_differ", block=blk, got=[it.bh, it.bw, it.bc], layers=kinds, sig=dict(oracle="block_registers_differ", kind=kinds[0])))
            for msg in shram_check(it, acc):
                out["viol"].append(dict(prop="C15", oracle="invalid_shram_layout", block=blk, msg=msg, regs=dict(ib_end=it.ib_end, ib_start2=it.ib_start2, ab_start=it.ab_start, acc=it.acc_format),
                                        layers=kinds, sig=dict(oracle="invalid_shram_layout", what=msg.split(" ")[0] + " " + msg.split(" ")[1], kind=kinds[0])))
        out["counters"]["configs_checked"] = out["evaluations"]
        out["counters"]["probe"] = dict(lut_op=int((d.get("act") or {}).get("type") == "TABLE_LOOKUP"), binary_elementwise=int(d["t"] == "ew" and d.get("ifm2") is not None and d.get("scalar") is None),
                                        bits16=int(apigen.DT_BITS[d["ifm"]["dt"]] == 16))
        out["evaluations"] = max(1, out["evaluations"])
        out["sample"] = dict(acc=wl["acc"], op=kinds[0], ifm=d["ifm"]["shape"], ofm=d["ofm"]["shape"], kernel=d.get("kernel"), configs=len(cfgs))
        return out


# ======================================================================================================== C17
class C17(ApiCheck):
    pid = "C17"
    quick = dict(cases=600, budget=90, timeout=120)
    thorough = dict(cases=6000, budget=1200, timeout=600)
    rule = ("npu_create_driver_payload(words, accelerator) for word lists of boundary and random lengths (0..5, 2^16-1, 2^16, 2^16+1, random up to 2^18; "
            "2^24-1 and 2^24 once per run, more often in the thorough tier) and all byte patterns; npu_generate_register_command_stream on DMA lists whose stream ends just above / just below the 16 MiB hardware limit (once each per run); as HISTORIES of several accelerators in one process (the payload of one must not depend "
            "on an earlier one), plus the command-stream tensors of compiled networks; the driver peer parses every payload; distinct = digest(case); "
            "non-trivial = >= 2 payloads in one process")
    components = {"real": ["npu_create_driver_payload / driver_actions", "whole compiler for the network part"], "model": ["Ethos-U driver payload parser"], "stub": []}

    def gen_case(self, seed, i, tier):
        r = seeds.rng(seed, "C17", "case", i)
        if i % 5 == 4:
            recipe = netgen.gen_recipe(r, profile="mixed")
            opts, _ = netgen.gen_options(r)
            return dict(kind="net", recipe=recipe, opts=opts)
        steps = []
        if i == 0:
            # the boundary of the 24-bit length field, once per run in both tiers (all-zero words keep the 2^24-element lists cheap)
            for n in ((1 << 24), (1 << 24) - 1):
                steps.append(dict(acc=r.choice(apigen.ACCS), n=n, pattern="zeros", wseed=0))
            return dict(kind="api", steps=steps)
        if i in (1, 2):
            # the 16 MiB hardware limit sits in the register command stream generator: a list of DMA operations whose stream
            # ends just above (case 1) / just below (case 2) 2^24 bytes; once per run in both tiers (about 20 s each)
            return dict(kind="gen_limit", acc=r.choice(apigen.ACCS), above=i == 1, margin=r.choice([8, 64, 4096]), aseed=r.randrange(1 << 30))
        for _ in range(r.randint(2, 6)):
            n = r.choice([0, 1, 2, 3, 4, 5, 7, 8, 65535, 65536, 65537, r.randint(6, 300), r.randint(300, 1 << 18)])
            if tier == "thorough" and i % 200 == 0 and not steps:
                n = r.choice([(1 << 24) - 1, 1 << 24])
            steps.append(dict(acc=r.choice(apigen.ACCS), n=n, pattern=r.choice(["random", "zeros", "ones", "ramp"]), wseed=r.randrange(1 << 30)))
            if n <= 300 and r.random() < 0.15:
                steps[-1]["as_array"] = r.choice(["uint32", "int64"])  # the words as a NumPy array instead of a list
        return dict(kind="api", steps=steps)

    def case_layers(self, desc):
        if desc.get("kind") == "gen_limit":
            return [desc["acc"], "above" if desc["above"] else "below"]
        return [s_["acc"] for s_ in desc["steps"]] if desc.get("kind") == "api" else [L["op"] for L in desc["recipe"]["layers"]]

    @staticmethod
    def words_for(s_):
        n = s_["n"]
        if s_["pattern"] == "zeros":
            return np.zeros(n, dtype=np.uint32)
        if s_["pattern"] == "ones":
            return np.full(n, 0xFFFFFFFF, dtype=np.uint32)
        if s_["pattern"] == "ramp":
            return (np.arange(n, dtype=np.uint64) * 0x01010101 % (1 << 32)).astype(np.uint32)
        return np.random.RandomState(s_["wseed"] & 0x7FFFFFFF).randint(0, 1 << 32, size=n, dtype=np.uint64).astype(np.uint32)

    def run_case(self, desc):
        out = dict(viol=[], counters={}, key=seeds.digest(desc), nontrivial=False, evaluations=0)
        if desc.get("kind") == "net":
            from . import netsim, artefact

            res = netsim.run_recipe(desc["recipe"], desc["opts"], 0, 0, False)
            out["outcome"] = res["status"]
            if res["status"] == "compiled":
                out["evaluations"] = len(res["plan"].eops)
                out["nontrivial"] = out["evaluations"] > 0
                for v in res["viol"]:
                    if v.get("prop") == "C17":
                        v = dict(v)
                        v["sig"] = dict(oracle=v["oracle"], path="net")
                        out["viol"].append(v)
                for ent in res["plan"].programs.values():
                    if ent["payload"] is not None:
                        pl = ent["payload"]
                        if struct.pack("<%dI" % len(pl["words"]), *pl["words"]) != bytes(ent["e"]["cs"][-4 * len(pl["words"]):] if pl["words"] else b""):
                            out["viol"].append(dict(prop="C17", oracle="words_modified", sig=dict(oracle="words_modified", path="net")))
            out["evaluations"] = max(1, out["evaluations"])
            out["sample"] = dict(kind="net", layers=[L["op"] for L in desc["recipe"]["layers"]], options=desc["opts"])
            return out
        from ethosu.vela import api
        from ethosu.vela.errors import VelaError

        if desc.get("kind") == "gen_limit":
            return self.run_gen_limit(desc, out, api, VelaError)
        out["nontrivial"] = len(desc["steps"]) >= 2
        hist = []
        for si, s_ in enumerate(desc["steps"]):
            words = self.words_for(s_)
            acc = HW.API_ACCEL[s_["acc"]]
            out["evaluations"] += 1
            sig_ctx = dict(n_class="ge_2^24" if s_["n"] >= 1 << 24 else ("ge_2^16" if s_["n"] >= 1 << 16 else "small"))
            try:
                if s_.get("as_array"):
                    # outside the documented parameter type (List[int]): a refusal is fine, a payload that is handed back must be right
                    try:
                        payload = api.npu_create_driver_payload(words.astype(s_["as_array"]), getattr(api.NpuAccelerator, s_["acc"]))
                    except Exception:  # noqa
                        out["counters"]["array_input_refused"] = out["counters"].get("array_input_refused", 0) + 1
                        hist.append(s_["acc"])
                        continue
                    out["counters"]["array_input_accepted"] = out["counters"].get("array_input_accepted", 0) + 1
                else:
                    payload = api.npu_create_driver_payload([int(w) for w in words] if s_["n"] < 200000 else words.tolist(), getattr(api.NpuAccelerator, s_["acc"]))
            except VelaError as e:
                if s_["n"] < 1 << 24:
                    out["viol"].append(dict(prop="C17", oracle="valid_stream_rejected", n=s_["n"], msg=str(e)[:200], sig=dict(oracle="valid_stream_rejected", **sig_ctx)))
                hist.append(s_["acc"])
                continue
            except Exception as e:  # noqa
                out["viol"].append(dict(prop="C17", oracle="internal_exception", n=s_["n"], exc=type(e).__name__, msg=str(e)[:200],
                                        sig=dict(oracle="internal_exception", exc=type(e).__name__, **sig_ctx)))
                hist.append(s_["acc"])
                continue
            if s_["n"] >= 1 << 24:
                out["viol"].append(dict(prop="C17", oracle="oversize_stream_accepted", n=s_["n"], sig=dict(oracle="oversize_stream_accepted")))
                continue
            try:
                p = driver.parse_payload(payload, acc)
                if not np.array_equal(np.array(p["words"], dtype=np.uint32), words):
                    out["viol"].append(dict(prop="C17", oracle="words_modified", n=s_["n"], sig=dict(oracle="words_modified", **sig_ctx)))
            except driver.DriverReject as e:
                out["viol"].append(dict(prop="C17", oracle="driver_rejects:" + e.oracle, n=s_["n"], acc=s_["acc"], earlier=hist[-3:], msg=str(e)[:200],
                                        sig=dict(oracle="driver_rejects:" + e.oracle, history=bool(hist), **sig_ctx)))
            hist.append(s_["acc"])
        out["counters"]["payloads"] = out["evaluations"]
        out["counters"]["probe"] = dict(len_ge_2_16=int(any(s_["n"] >= 65536 for s_ in desc["steps"])), len_ge_2_24=int(any(s_["n"] >= 1 << 24 for s_ in desc["steps"])),
                                        several_accelerators=int(len(set(s_["acc"] for s_ in desc["steps"])) > 1))
        out["sample"] = dict(kind="api", steps=[dict(acc=s_["acc"], n=s_["n"], pattern=s_["pattern"]) for s_ in desc["steps"]])
        return out

    @staticmethod
    def dma_ops(api, n, aseed):
        ops = []
        for i in range(n):
            ops.append(api.NpuDmaOperation(api.NpuAddressRange(0, ((i * 13 + aseed) % 4096) * 16, 16), api.NpuAddressRange(1, ((i * 7 + aseed) % 4096) * 16, 16)))
        return ops

    def run_gen_limit(self, desc, out, api, VelaError):
        """the generator's own limit: a stream of >= 2^24 bytes is an error, one just below is produced, framed and parsed"""
        acc_e = getattr(api.NpuAccelerator, desc["acc"])
        n0 = 2000
        probe = api.npu_generate_register_command_stream(self.dma_ops(api, n0, desc["aseed"]), acc_e)
        probe2 = api.npu_generate_register_command_stream(self.dma_ops(api, 2 * n0, desc["aseed"]), acc_e)
        per_op = (len(probe2) - len(probe)) / n0
        fixed = len(probe) - per_op * n0
        limit_words = (1 << 24) // 4
        target = limit_words + desc["margin"] if desc["above"] else limit_words - desc["margin"]
        n = int((target - fixed) / per_op) + (1 if desc["above"] else 0)
        out["evaluations"] = 1
        out["nontrivial"] = True
        out["counters"]["probe"] = dict(generator_limit_above=int(desc["above"]), generator_limit_below=int(not desc["above"]))
        try:
            stream = api.npu_generate_register_command_stream(self.dma_ops(api, n, desc["aseed"]), acc_e)
        except VelaError as e:
            if not desc["above"]:
                out["viol"].append(dict(prop="C17", oracle="valid_stream_rejected", ops=n, msg=str(e)[-200:], sig=dict(oracle="valid_stream_rejected", n_class="generator_below_16MiB")))
            out["sample"] = dict(kind="gen_limit", ops=n, above=desc["above"], outcome="rejected")
            return out
        size = 4 * len(stream)
        out["sample"] = dict(kind="gen_limit", ops=n, above=desc["above"], outcome="generated", bytes=size)
        if size >= 1 << 24:
            out["viol"].append(dict(prop="C17", oracle="oversize_stream_accepted", bytes=size, ops=n, sig=dict(oracle="oversize_stream_accepted", where="generator")))
            return out
        if desc["above"]:
            raise RuntimeError("harness: the DMA list meant to exceed the limit produced %d bytes" % size)
        payload = api.npu_create_driver_payload(stream, acc_e)
        try:
            p = driver.parse_payload(payload, HW.API_ACCEL[desc["acc"]])
            if not np.array_equal(np.array(p["words"], dtype=np.uint32), np.array(stream, dtype=np.uint32)):
                out["viol"].append(dict(prop="C17", oracle="words_modified", n=len(stream), sig=dict(oracle="words_modified", n_class="generator_below_16MiB")))
        except driver.DriverReject as e:
            out["viol"].append(dict(prop="C17", oracle="driver_rejects:" + e.oracle, n=len(stream), acc=desc["acc"], msg=str(e)[:200],
                                    sig=dict(oracle="driver_rejects:" + e.oracle, n_class="generator_below_16MiB")))
        return out

    def minimise(self, desc, sig):
        if desc.get("kind") != "api":
            return desc
        best = desc
        for i in range(len(desc["steps"]) - 1, -1, -1):
            if len(best["steps"]) <= 1:
                break
            cand = dict(best, steps=best["steps"][:i] + best["steps"][i + 1:])
            if self.still_fails(cand, sig):
                best = cand
        return best
