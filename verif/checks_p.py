"""World P checks: the real compiler process behind seams (hash seed, heap layout, uuid, cwd/fs, process history)."""
import copy
import json
import os
import re

from . import check, netgen, netsim, seeds, artefact, fbs


class C13(check.Check):
    pid = "C13"
    level = "exploration"
    quick = dict(cases=2400, budget=90, timeout=120)
    thorough = dict(cases=60000, budget=1200, timeout=300)
    components = {"real": ["ethosu.vela CLI entry point vela.main and everything below it"],
                  "model": ["plain flatbuffer parser accepting the output", "step/wall budget (hang detector)"], "stub": []}
    assumptions = ["a compilation of a generated (small) model that runs longer than the per-case wall clock is counted as non-termination"]
    rule = ("corner-swarm recipes (rank 0..5, unit/prime dims, batch>1, all data types, missing/per-axis quantisation, unsupported operators and "
            "attribute values, dynamic weights, third-party custom ops) and ordinary recipes x random CLI option combinations, each run through "
            "vela.main under a child interpreter with its own PYTHONHASHSEED / heap perturbation; distinct = digest(recipe, options); "
            "non-trivial = the compiler got past argument parsing and read the model")

    def interpreters(self, tier, seed):
        r = seeds.rng(seed, "C13", "interp")
        n = 2 if tier == "quick" else 8
        return [dict(PYTHONHASHSEED=0 if k == 0 else r.randrange(1, 1 << 32), heap=0 if k == 0 else r.randrange(1, 5000)) for k in range(n)]

    def gen_case(self, seed, i, tier):
        r = seeds.rng(seed, "C13", "case", i)
        recipe = netgen.gen_corner_recipe(r) if r.random() < 0.75 else netgen.gen_recipe(r, profile="mixed")
        opts, _ = netgen.gen_options(r)
        opts += netgen.gen_cli_extras(r)
        return dict(recipe=recipe, opts=opts)

    def case_layers(self, desc):
        return [L["op"] for L in desc["recipe"]["layers"]]

    def run_case(self, desc):
        out = dict(viol=[], counters={}, key=seeds.digest([desc["recipe"], desc["opts"]]), nontrivial=False, evaluations=1)
        try:
            src = netgen.build_bytes(desc["recipe"])
        except ValueError:
            out["outcome"] = "recipe_inconsistent"
            return out
        cr = netsim.compile_bytes(src, desc["opts"])
        txt = cr["out"]
        has_error_line = bool(re.search(r"^(Error|Warning: Error|.*Error:)", txt, re.M)) or "Error:" in txt
        layers = self.case_layers(desc)
        out["nontrivial"] = True
        if cr["exc"]:
            out["outcome"] = "internal_exception"
            fn = (cr["exc_site"] or "?").split(":")
            site = f"{fn[0]}:{fn[-1]}"
            out["viol"].append(dict(prop="C13", oracle="internal_exception", exc_type=cr["exc_type"], site=site, line=cr["exc_site"], msg=cr["exc_msg"],
                                    layers=layers, sig=dict(oracle="internal_exception", exc_type=cr["exc_type"], site=site)))
        elif cr["rc"] == 0:
            if cr["out_bytes"] is None:
                out["outcome"] = "rc0_no_output"
                out["viol"].append(dict(prop="C13", oracle="rc0_without_output", layers=layers, sig=dict(oracle="rc0_without_output")))
            else:
                try:
                    artefact.load(cr["out_bytes"])
                    out["outcome"] = "compiled"
                except fbs.ParseError as ex:
                    out["outcome"] = "unparseable_output"
                    out["viol"].append(dict(prop="C13", oracle="output_does_not_parse", msg=str(ex)[:200], layers=layers, sig=dict(oracle="output_does_not_parse")))
        else:
            if has_error_line:
                out["outcome"] = "rejected_with_diagnosis"
            else:
                out["outcome"] = "nonzero_without_diagnosis"
                out["viol"].append(dict(prop="C13", oracle="nonzero_status_without_error_message", rc=cr["rc"], tail=txt[-300:], layers=layers,
                                        sig=dict(oracle="nonzero_status_without_error_message")))
        flags = [o for o in desc["opts"] if o.startswith("--verbose") or o in ("--timing", "--enable-debug-db", "--show-cpu-operations",
                                                                                 "--show-subgraph-io-summary", "--force-symmetric-int-weights", "--subgraph-output")]
        out["counters"]["cli_flag"] = {f: 1 for f in flags}
        out["counters"]["op_kind"] = {k: 1 for k in set(layers)}
        out["sample"] = dict(layers=layers, inputs=desc["recipe"]["inputs"], options=desc["opts"], outcome=out["outcome"])
        return out

    def minimise(self, desc, sig):
        def fails(recipe):
            return self.still_fails(dict(desc, recipe=recipe), sig)

        rec = netgen.minimise_recipe(copy.deepcopy(desc["recipe"]), fails, budget=25)
        d = dict(desc, recipe=rec)
        opts = list(d["opts"])
        i = 0
        while i < len(opts):
            if opts[i] == "--accelerator-config":
                i += 2
                continue
            width = 2 if (i + 1 < len(opts) and not opts[i + 1].startswith("--")) else 1
            if opts[i] == "--config":
                width = 6 if "--memory-mode" in opts[i:i + 6] else width
            cand = opts[:i] + opts[i + width:]
            if self.still_fails(dict(d, opts=cand), sig):
                opts = cand
            else:
                i += width
        d["opts"] = opts
        return d
