"""World P checks: the real compiler process behind seams (hash seed, heap layout, uuid, cwd/fs, process history)."""
import copy
import json
import os
import re

from . import check, netgen, netsim, seeds, artefact, fbs


class C13(check.Check):
    pid = "C13"
    level = "exploration"
    quick = dict(cases=5000, budget=90, timeout=120)
    thorough = dict(cases=60000, budget=1200, timeout=300)
    components = {"real": ["ethosu.vela CLI entry point vela.main and everything below it"],
                  "model": ["plain flatbuffer parser accepting the output", "step/wall budget (hang detector)"], "stub": []}
    assumptions = ["a compilation of a generated (small) model that runs longer than the per-case wall clock is counted as non-termination"]
    rule = ("corner-swarm recipes (rank 0..5, unit/prime dims, batch>1, all data types, missing/per-axis quantisation, unsupported operators and "
            "attribute values, dynamic weights, third-party custom ops) and ordinary recipes x random CLI option combinations, each run through "
            "vela.main under a child interpreter with its own PYTHONHASHSEED / heap perturbation; distinct = digest(recipe, options); "
            "non-trivial = the compiler got past argument parsing and read the model")

    def interpreters(self, tier, seed):
        r = seeds.rng(seed, "C13", "interp")
        n = 2 if tier == "quick" else 8
        return [dict(PYTHONHASHSEED=0 if k == 0 else r.randrange(1, 1 << 32), heap=0 if k == 0 else r.randrange(1, 5000)) for k in range(n)]

    def gen_case(self, seed, i, tier):
        r = seeds.rng(seed, "C13", "case", i)
        recipe = netgen.gen_corner_recipe(r) if r.random() < 0.75 else netgen.gen_recipe(r, profile="mixed")
        opts, _ = netgen.gen_options(r)
        opts += netgen.gen_cli_extras(r)
        return dict(recipe=recipe, opts=opts)

    def case_layers(self, desc):
        return [L["op"] for L in desc["recipe"]["layers"]]

    def run_case(self, desc):
        out = dict(viol=[], counters={}, key=seeds.digest([desc["recipe"], desc["opts"]]), nontrivial=False, evaluations=1)
        try:
            src = netgen.build_bytes(desc["recipe"])
        except ValueError:
            out["outcome"] = "recipe_inconsistent"
            return out
        cr = netsim.compile_bytes(src, desc["opts"])
        txt = cr["out"]
        has_error_line = bool(re.search(r"^(Error|Warning: Error|.*Error:)", txt, re.M)) or "Error:" in txt
        layers = self.case_layers(desc)
        out["nontrivial"] = True
        if cr["exc"]:
            out["outcome"] = "internal_exception"
            fn = (cr["exc_site"] or "?").split(":")
            site = f"{fn[0]}:{fn[-1]}"
            out["viol"].append(dict(prop="C13", oracle="internal_exception", exc_type=cr["exc_type"], site=site, line=cr["exc_site"], msg=cr["exc_msg"],
                                    layers=layers, sig=dict(oracle="internal_exception", exc_type=cr["exc_type"], site=site)))
        elif cr["rc"] == 0:
            if cr["out_bytes"] is None:
                out["outcome"] = "rc0_no_output"
                out["viol"].append(dict(prop="C13", oracle="rc0_without_output", layers=layers, sig=dict(oracle="rc0_without_output")))
            else:
                try:
                    artefact.load(cr["out_bytes"])
                    out["outcome"] = "compiled"
                except fbs.ParseError as ex:
                    out["outcome"] = "unparseable_output"
                    out["viol"].append(dict(prop="C13", oracle="output_does_not_parse", msg=str(ex)[:200], layers=layers, sig=dict(oracle="output_does_not_parse")))
        else:
            if has_error_line:
                out["outcome"] = "rejected_with_diagnosis"
            else:
                out["outcome"] = "nonzero_without_diagnosis"
                out["viol"].append(dict(prop="C13", oracle="nonzero_status_without_error_message", rc=cr["rc"], tail=txt[-300:], layers=layers,
                                        sig=dict(oracle="nonzero_status_without_error_message")))
        flags = [o for o in desc["opts"] if o.startswith("--verbose") or o in ("--timing", "--enable-debug-db", "--show-cpu-operations",
                                                                                 "--show-subgraph-io-summary", "--force-symmetric-int-weights", "--subgraph-output")]
        out["counters"]["cli_flag"] = {f: 1 for f in flags}
        out["counters"]["op_kind"] = {k: 1 for k in set(layers)}
        out["sample"] = dict(layers=layers, inputs=desc["recipe"]["inputs"], options=desc["opts"], outcome=out["outcome"])
        return out

    hang_is_violation = True  # "the compiler terminates"

    def minimise(self, desc, sig):
        if sig.get("oracle") == "does_not_terminate":
            return desc  # every probe of the minimiser would cost the full bound

        def fails(recipe):
            return self.still_fails(dict(desc, recipe=recipe), sig)

        rec = netgen.minimise_recipe(copy.deepcopy(desc["recipe"]), fails, budget=25)
        d = dict(desc, recipe=rec)
        opts = list(d["opts"])
        i = 0
        while i < len(opts):
            if opts[i] == "--accelerator-config":
                i += 2
                continue
            width = 2 if (i + 1 < len(opts) and not opts[i + 1].startswith("--")) else 1
            if opts[i] == "--config":
                width = 6 if "--memory-mode" in opts[i:i + 6] else width
            cand = opts[:i] + opts[i + width:]
            if self.still_fails(dict(d, opts=cand), sig):
                opts = cand
            else:
                i += width
        d["opts"] = opts
        return d


# ======================================================================================================== C14
class InjectedFault(BaseException):
    """raised by the fault injector inside the compiler (BaseException so that no `except Exception` swallows it)"""


def install_uuid_seam(seed):
    """uuid.uuid4 -> seeded 122-bit stream, seeded ONCE per interpreter (never per compile: ids never repeat inside a history)."""
    import random
    import uuid

    r = random.Random(seed)

    def uuid4():
        return uuid.UUID(int=(r.getrandbits(128) & ~(0xF << 76) & ~(0x3 << 62)) | (4 << 76) | (0x2 << 62))

    uuid.uuid4 = uuid4


class CallCounter:
    def __init__(self, target=None):
        self.n = 0
        self.target = target
        self.site = None

    def __call__(self, frame, event, arg):
        if event == "call":
            fn = frame.f_code.co_filename
            if "/ethosu/vela/" in fn:
                self.n += 1
                if self.n == self.target:
                    self.site = f"{os.path.basename(fn)}:{frame.f_code.co_name}"
                    raise InjectedFault(self.site)
        return None


def one_compile(src, name, opts, entry, workdir, fault_at=None, count_calls=False):
    """One compilation through a public entry point in THIS process.  -> dict(rc, exc_type, out (digest|None), csv (digest|None), calls)"""
    import sys
    import hashlib
    import glob
    from . import compile as C
    from ethosu.vela import vela

    os.makedirs(workdir, exist_ok=True)
    cwd = os.getcwd()
    os.chdir(workdir)
    srcp = os.path.join(workdir, name + ".tflite")
    with open(srcp, "wb") as f:
        f.write(src)
    tracer = CallCounter(fault_at) if (fault_at or count_calls) else None
    res = dict(rc=None, exc_type=None, out=None, csv=None, calls=None, out_len=None)
    data = None
    try:
        with C.Capture() as cap:
            try:
                if tracer:
                    sys.settrace(tracer)
                try:
                    if entry == "main":
                        res["rc"] = vela.main([srcp, "--output-dir", os.path.join(workdir, "out")] + list(opts))
                        p = os.path.join(workdir, "out", name + "_vela.tflite")
                        data = open(p, "rb").read() if res["rc"] == 0 and os.path.exists(p) else None
                        for cp in glob.glob(os.path.join(workdir, "out", name + "_summary_*.csv")):
                            rows = open(cp).read().splitlines()
                            res["csv"] = hashlib.sha256(rows[-1].encode()).hexdigest()[:16] if rows else None
                    elif entry == "convert":
                        p = vela.convert(srcp)
                        res["rc"] = 0
                        data = open(p, "rb").read()
                    else:
                        # the client's own buffer when it hands one in (a bytearray kept across the steps of a history): it must come
                        # back unchanged
                        buf = src if isinstance(src, bytearray) else bytearray(src)
                        before = bytes(buf)
                        try:
                            data = bytes(vela.convert_bytes(buf))
                            res["rc"] = 0
                        finally:
                            res["src_modified"] = bytes(buf) != before
                finally:
                    sys.settrace(None)
            except InjectedFault as e:
                res["exc_type"] = "InjectedFault"
                res["site"] = str(e)
            except SystemExit as e:
                res["rc"] = e.code if isinstance(e.code, int) else 1
            except BaseException as e:  # noqa
                res["exc_type"] = type(e).__name__
                res["site"] = C.exc_site(e)
                res["msg"] = str(e)[:200]
        res["console_tail"] = cap.text[-300:]
    finally:
        os.chdir(cwd)
    if data is not None:
        res["out"] = hashlib.sha256(data).hexdigest()[:16]
        res["out_len"] = len(data)
    if tracer:
        res["calls"] = tracer.n
    import shutil

    shutil.rmtree(os.path.join(workdir, "out"), ignore_errors=True)
    shutil.rmtree(os.path.join(workdir, "output"), ignore_errors=True)
    return res


def in_grandchild(fn, *args):
    """Run fn(*args) in a fresh fork of this (still pristine) process: the single-copy reference."""
    import pickle

    r, w = os.pipe()
    pid = os.fork()
    if pid == 0:
        code = 0
        try:
            os.close(r)
            try:
                val = ("ok", fn(*args))
            except BaseException as e:  # noqa
                val = ("exc", repr(e)[:300])
            with os.fdopen(w, "wb") as f:
                f.write(pickle.dumps(val))
        except BaseException:  # noqa
            code = 3
        finally:
            os._exit(code)
    os.close(w)
    buf = b""
    with os.fdopen(r, "rb") as f:
        buf = f.read()
    os.waitpid(pid, 0)
    st, val = pickle.loads(buf) if buf else ("died", None)
    if st != "ok":
        raise RuntimeError(f"golden run failed in the harness: {st} {val}")
    return val


DEFAULT_OPTS = []  # what convert()/convert_bytes() use: ethos-u65-256, internal defaults, HillClimb, Performance, 384 KiB


def gen_pool(r):
    """Models chosen to share process-wide state keys: identical LUTs (same activation + quantisation in different networks),
    identical all-zero biases, shared weight values / seeds, equal tensor names."""
    pool = []
    shared_seed = r.randrange(1 << 30)
    lut_q = [round(r.choice([0.02, 0.05, 0.1]), 3), r.choice([-128, 0, 3])]
    attr_op = r.choice(["GELU", "GELU", "LEAKY_RELU", "SOFTMAX", "PRELU", "EXP", "LOG", "SQRT", "HARD_SWISH"])
    attr_shape = r.choice([(8, 8, 8), (4, 6, 16)])
    attr_q = [r.choice([0.02, 0.005, 0.002]), r.choice([-10, 0, 100])]  # fine output steps: the two GELU flavours differ by < 1e-3
    share_alpha = r.choice([0.1, 0.2, 0.3, attr_q[0]])
    for k in range(r.choice([3, 4, 5])):
        style = r.choice(["lut", "lut", "conv", "generated", "generated", "branchy", "branchy", "lut_attr", "lut_attr", "lut_attr", "lut_attr", "cpu_ops", "cpu_ops", "scale_share", "scale_share", "deep"])
        if style == "deep":
            # several hundred operators in a row: compiles with the recursion limit the entry points set for themselves, not with a
            # smaller one left behind by an earlier command line
            n_ = 600
            layers = []
            for i_ in range(n_):
                if i_ % 2:
                    layers.append(dict(op="RELU", seed=i_, **{"in": [i_]}))
                else:
                    layers.append(dict(op="ADD", act="NONE", q=[0.05, 3], const=dict(shape=[1, 1, 1, 4], q=[0.05, 0]), swap=False, seed=i_, **{"in": [i_]}))
            rec = dict(name="net", inputs=[dict(shape=[1, 2, 2, 4], dtype="int8", q=[0.05, 3])], layers=layers, outputs=[n_], dup_names=False, note="deep")
        elif style == "scale_share":
            # different operators of different models reach the compiler's scale arithmetic with the SAME numbers (input scale, a second
            # factor, output scale) - as tensor scales (float32), as attributes, as constants: whatever is memoised on such numbers must
            # not depend on which operator asked first
            H, W, C = attr_shape
            def share_model(kind, two_inputs=False):
                L = dict(op=kind, q=list(attr_q), seed=3, **{"in": [0]})
                ins_ = [dict(shape=[1, H, W, C], dtype="int8", q=list(lut_q))]
                if kind == "LEAKY_RELU":
                    L["alpha"] = share_alpha
                elif kind in ("MUL", "ADD"):
                    q2 = [r.choice([share_alpha, share_alpha, 1.0, lut_q[0]]), 0]
                    if two_inputs:
                        ins_.append(dict(shape=[1, H, W, C], dtype="int8", q=q2))
                        L.update(act="NONE", **{"in": [0, 1]})
                    else:
                        L.update(act="NONE", const=dict(shape=r.choice([[1, 1, 1, C], [1, 1, 1, 1]]), q=q2), swap=r.random() < 0.3)
                elif kind == "AVERAGE_POOL_2D":
                    L.update(k=[2, 2], stride=[1, 1], pad="SAME", act="NONE")
                return dict(name="net", inputs=ins_, layers=[L], outputs=[len(ins_)], dup_names=False)

            # a pair: a table operator that evaluates the numbers in double precision while its table is built, and an elementwise
            # operator whose registers are computed from the same numbers as stored (float32) tensor scales
            pool.append(share_model(r.choice(["LEAKY_RELU", "LEAKY_RELU", "ABS", "QUANTIZE", "AVERAGE_POOL_2D"])))
            rec = share_model(r.choice(["MUL", "MUL", "ADD"]), two_inputs=r.random() < 0.5)
        elif style == "cpu_ops":
            # several different operators that stay on the CPU (third-party custom operators of the same version, builtins the NPU
            # does not implement): everything the writer emits about them - operator-code table, order, indices - has to be a
            # function of the network, not of the interpreter's hash seed
            H, W, C = r.choice([(8, 8, 8), (4, 6, 16)])
            layers = [dict(op="CONV_2D", k=[1, 1], oc=8, stride=[1, 1], dil=[1, 1], pad="SAME", act="NONE", q=[0.05, 0], per_axis=False, wstyle="uniform",
                           wscale=0.01, bias=True, seed=shared_seed, **{"in": [0]})]
            codes = r.sample(["AlphaOp", "BetaOp", "VerifThirdParty", "OtherVendorOp", "zz_op", "A", "Gamma.v2"], r.choice([2, 2, 3, 4]))
            for cd in codes:
                layers.append(dict(op="CUSTOM", code=cd, options=[r.randrange(256) for _ in range(r.randint(0, 4))], seed=1, **{"in": [len(layers)]}))
                if r.random() < 0.3:
                    layers.append(dict(op="RELU", seed=1, **{"in": [len(layers)]}))
            rec = dict(name="net", inputs=[dict(shape=[1, H, W, C], dtype="int8", q=[0.05, -3])], layers=layers, outputs=[len(layers)], dup_names=False)
        elif style == "lut_attr":
            # the same table operator on the same quantisation in several models of the pool, differing only in an attribute
            # (or not at all): whatever the compiler memoises about such an operator must depend on everything the table does
            H, W, C = attr_shape
            L = dict(op=attr_op, q=list(attr_q) if attr_op != "SOFTMAX" else [1 / 256, -128], seed=r.choice([1, 2]), **{"in": [0]})
            if attr_op == "GELU":
                L["approximate"] = r.random() < 0.5
            elif attr_op == "LEAKY_RELU":
                L["alpha"] = r.choice([0.1, 0.2, 0.3])
            elif attr_op == "SOFTMAX":
                L["beta"] = r.choice([1.0, 0.5, 2.0])
            elif attr_op == "PRELU":
                L["aq"] = [0.01, 0]
            layers = [L]
            if r.random() < 0.4:
                layers.append(dict(op="ADD", act="NONE", q=[0.05, 0], seed=2, **{"in": [1, 1]}))
            rec = dict(name="net", inputs=[dict(shape=[1, H, W, C], dtype="int8", q=lut_q)], layers=layers, outputs=[len(layers)], dup_names=False)
        elif style == "generated":
            rec = netgen.gen_recipe(r, profile=r.choice(["mixed", "lut", "npu_only"]))
        elif style == "branchy":
            # several branches and outputs with different sizes and lifetimes: the allocators' initial order is rarely optimal,
            # so their search (and whatever state it keeps between compilations) actually runs
            H, W, C = r.choice([(12, 12, 8), (16, 8, 4), (10, 10, 16)])
            vals = [(H, W, C)]
            layers = []
            for li in range(r.randint(5, 9)):
                src = r.randrange(len(vals))
                h, w, c = vals[src]
                kind = r.choice(["conv", "conv", "pool", "relu"])
                if kind == "conv":
                    k = r.choice([1, 3])
                    st = r.choice([1, 1, 2]) if min(h, w) >= 4 else 1
                    oc = r.choice([4, 8, 12, 24, 32])
                    layers.append(dict(op="CONV_2D", k=[k, k], oc=oc, stride=[st, st], dil=[1, 1], pad="SAME", act=r.choice(["NONE", "RELU"]),
                                       q=[round(r.choice([0.03, 0.05, 0.08]), 3), r.choice([-128, 0, 5])], per_axis=False, wstyle="uniform", wscale=0.01,
                                       bias=True, seed=r.randrange(1 << 30), **{"in": [src]}))
                    vals.append((-(-h // st), -(-w // st), oc))
                elif kind == "pool" and min(h, w) >= 2:
                    layers.append(dict(op="MAX_POOL_2D", k=[2, 2], stride=[2, 2], pad="SAME", act="NONE", seed=1, **{"in": [src]}))
                    vals.append((-(-h // 2), -(-w // 2), c))
                else:
                    layers.append(dict(op="RELU", seed=1, **{"in": [src]}))
                    vals.append((h, w, c))
            used = set(L["in"][0] for L in layers)
            outs = [i for i in range(1, len(vals)) if i not in used] or [len(vals) - 1]
            rec = dict(name="net", inputs=[dict(shape=[1, H, W, C], dtype="int8", q=[0.05, -3])], layers=layers, outputs=outs, dup_names=False)
        else:
            H, W, C = r.choice([(8, 8, 8), (6, 5, 16), (12, 4, 8)])
            layers = []
            cur = 0
            if style == "conv" or r.random() < 0.6:
                layers.append(dict(op="CONV_2D", k=[3, 3], oc=r.choice([8, 16]), stride=[1, 1], dil=[1, 1], pad="SAME", act="NONE", q=lut_q, per_axis=False,
                                   wstyle="uniform", wscale=0.01, bias=True, bmax=0 if r.random() < 0.5 else 100, seed=shared_seed, **{"in": [cur]}))
                cur += 1
            layers.append(dict(op=r.choice(["LOGISTIC", "TANH"]), q=[1 / 256, -128], seed=1, **{"in": [cur]}))
            layers[-1]["q"] = list(netgen._act_q("int8", layers[-1]["op"]))
            cur += 1
            if r.random() < 0.5:
                layers.append(dict(op="ADD", act="NONE", q=[0.05, 0], seed=2, **{"in": [cur, cur]}))
                cur += 1
            rec = dict(name="net", inputs=[dict(shape=[1, H, W, C], dtype="int8", q=lut_q if style != "conv" else [0.05, -3])], layers=layers,
                       outputs=[cur], dup_names=False)
        pool.append(rec)
    if r.random() < 0.5:
        # a twin of one model that differs in a single attribute of a single layer (same names, shapes and quantisation)
        import copy
        base = copy.deepcopy(r.choice(pool))
        cands = []
        for L in base["layers"]:
            op = L["op"]
            if op == "GELU":
                cands.append((L, "approximate", not L.get("approximate", False)))
            elif op == "LEAKY_RELU":
                cands.append((L, "alpha", 0.25 if L.get("alpha") != 0.25 else 0.1))
            elif op == "SOFTMAX":
                cands.append((L, "beta", 2.0 if L.get("beta", 1.0) != 2.0 else 1.0))
            elif op in ("CONV_2D", "DEPTHWISE_CONV_2D", "FULLY_CONNECTED", "TRANSPOSE_CONV", "PRELU"):
                cands.append((L, "seed", (L.get("seed", 1) + 12345) & 0x3FFFFFFF))
                if op != "PRELU" and L.get("act") is not None:
                    cands.append((L, "act", "RELU6" if L.get("act") != "RELU6" else "NONE"))
            elif op in ("RESIZE_BILINEAR", "RESIZE_NEAREST_NEIGHBOR") and not L.get("align_corners"):
                cands.append((L, "half_pixel", not L.get("half_pixel", False)))
            elif op in ("ADD", "SUB", "MUL") and L.get("const") is not None:
                cands.append((L, "seed", (L.get("seed", 1) + 999) & 0x3FFFFFFF))
        if cands:
            L, key, val = r.choice(cands)
            if not (key == "seed" and ("shared_w" in L or "shared_b" in L)):
                L[key] = val
                pool.append(base)
    return pool


OPTION_POOL = [
    [],
    ["--accelerator-config", "ethos-u55-128"],
    ["--accelerator-config", "ethos-u65-512", "--optimise", "Size"],
    ["--accelerator-config", "ethos-u55-64", "--tensor-allocator", "Greedy"],
    ["--accelerator-config", "ethos-u65-256", "--tensor-allocator", "LinearAlloc", "--arena-cache-size", "40000"],
    ["--accelerator-config", "ethos-u55-256", "--enable-debug-db"],
    ["--recursion-limit", "1000"],  # (process-wide interpreter setting chosen on the command line)
]


class C14(check.Check):
    pid = "C14"
    level = "fault_enumeration"
    quick = dict(cases=1200, budget=100, timeout=150)
    thorough = dict(cases=6000, budget=1500, timeout=400)
    components = {"real": ["vela.main / vela.convert / vela.convert_bytes and the whole compiler with all of its process-global state",
                           "ethosu.vela.api entry points between compilations"],
                  "model": ["single-copy reference: the same compilation alone in a fresh fork", "fault injector (exception at the N-th function entry)",
                            "file-system faults on the output directory"], "stub": []}
    assumptions = ["uuid.uuid4 is replaced by a seeded stream seeded once per interpreter so that runs replay; ids never repeat inside a history",
                   "a compilation interrupted by an injected fault is excused; every later compilation is not"]
    rule = ("histories (2..7 steps: compile via main/convert/convert_bytes, compile with an injected exception at a random function entry, "
            "output-directory faults, public API calls, gc) over pools of models that share LUTs, biases, weights and tensor names, under "
            "several (PYTHONHASHSEED, heap perturbation, uuid seed) interpreters; distinct = digest(history); non-trivial = >= 2 completed "
            "compilations in one process")

    def interpreters(self, tier, seed):
        r = seeds.rng(seed, "C14", "interp")
        n = 2 if tier == "quick" else 6
        return [dict(PYTHONHASHSEED=0 if k == 0 else r.randrange(1, 1 << 32), heap=0 if k == 0 else r.randrange(1, 5000),
                     uuid=r.randrange(1 << 62)) for k in range(n)]

    def boot(self):
        super().boot()
        env = json.loads(os.environ.get("VERIF_ENV_JSON", "{}"))
        install_uuid_seam(env.get("uuid", 12345))

    def gen_case(self, seed, i, tier):
        pr = seeds.rng(seed, "C14", "pool", i // 8)
        pool = gen_pool(pr)
        r = seeds.rng(seed, "C14", "hist", i)
        steps = []
        n = r.randint(2, 7)
        for _ in range(n):
            x = r.random()
            m = r.randrange(len(pool))
            if x < 0.62:
                e = r.choice(["main", "main", "convert", "convert_bytes"])
                o = 0 if e != "main" else r.choice([0, 0] + list(range(1, len(OPTION_POOL))))
                steps.append(dict(k="compile", m=m, o=o, e=e))
            elif x < 0.8:
                if pool[m].get("note") == "deep":
                    m = (m + 1) % len(pool)  # (tracing every call of a 600-operator compilation costs more than the whole rest of the case)
                steps.append(dict(k="fault", m=m, o=r.choice([0, 1, 2]), e="main", frac=round(r.random(), 4)))
            elif x < 0.86:
                steps.append(dict(k="io_fault", m=m, o=0, kind=r.choice(["outdir_is_file", "outdir_readonly"])))
            elif x < 0.95:
                steps.append(dict(k="api", acc=r.choice(["Ethos_U55_32", "Ethos_U55_256", "Ethos_U65_256", "Ethos_U65_512"])))
            else:
                steps.append(dict(k="gc"))
        if not any(s_["k"] == "compile" for s_ in steps[1:]):
            steps.append(dict(k="compile", m=r.randrange(len(pool)), o=0, e=r.choice(["main", "convert", "convert_bytes"])))
        deep = [k_ for k_, rec_ in enumerate(pool) if rec_.get("note") == "deep"]
        if deep and r.random() < 0.5:
            # a command line with its own interpreter settings, then the deep model through an entry point that has none
            steps.append(dict(k="compile", m=r.randrange(len(pool)), o=len(OPTION_POOL) - 1, e="main"))
            steps.append(dict(k="compile", m=deep[0], o=0, e=r.choice(["convert", "convert_bytes"])))
        return dict(pool=pool, steps=steps)

    def case_layers(self, desc):
        return [s_["k"] + (":" + s_["e"] if "e" in s_ else "") for s_ in desc.get("steps", [])]

    def run_case(self, desc):
        import gc
        import tempfile
        import shutil

        if desc.get("kind") == "env_pair":
            return self.run_env_pair(desc)
        out = dict(viol=[], counters={}, key=seeds.digest(desc["steps"]) + seeds.digest(desc["pool"]), nontrivial=False, evaluations=0)
        pool = desc["pool"]
        srcs = [netgen.build_bytes(rec) for rec in pool]
        client_bufs = [bytearray(s_) for s_ in srcs]  # what a client of convert_bytes() holds on to between calls
        wd = tempfile.mkdtemp(prefix="verif-h-")
        try:
            # single-copy reference: every distinct compilation alone, in a fresh fork of this pristine process
            golden = {}
            need_calls = set((s_["m"], s_["o"], s_["e"]) for s_ in desc["steps"] if s_["k"] == "fault")  # (call counting traces every call)
            for s_ in desc["steps"]:
                if s_["k"] in ("compile", "fault"):
                    key = (s_["m"], s_["o"], s_["e"])
                    if key not in golden:
                        golden[key] = in_grandchild(one_compile, srcs[s_["m"]], "net", OPTION_POOL[s_["o"]], s_["e"],
                                                    os.path.join(wd, "g"), None, key in need_calls)
                        out["evaluations"] += 1
            # entry points agree on the option set they share
            for m in set(k[0] for k in golden):
                outs = {e: golden[(m, 0, e)]["out"] for e in ("main", "convert", "convert_bytes") if (m, 0, e) in golden and golden[(m, 0, e)]["rc"] == 0}
                if len(set(outs.values())) > 1:
                    out["viol"].append(dict(prop="C14", oracle="entry_points_differ", model=m, outs=outs, sig=dict(oracle="entry_points_differ")))
            completed = 0
            trail = []
            for si, s_ in enumerate(desc["steps"]):
                k = s_["k"]
                out["counters"]["step_" + k] = out["counters"].get("step_" + k, 0) + 1
                if k == "gc":
                    gc.collect()
                    trail.append("gc")
                    continue
                if k == "api":
                    self.api_step(s_)
                    trail.append("api")
                    continue
                if k == "io_fault":
                    d = os.path.join(wd, "io%d" % si)
                    os.makedirs(d, exist_ok=True)
                    bad = os.path.join(d, "out")
                    if s_["kind"] == "outdir_is_file":
                        open(bad, "w").write("x")
                    else:
                        os.makedirs(bad)
                        os.chmod(bad, 0o500)
                    r_ = one_compile(srcs[s_["m"]], "net", OPTION_POOL[s_["o"]], "main", d)
                    out["counters"]["fault_io_" + s_["kind"]] = out["counters"].get("fault_io_" + s_["kind"], 0) + 1
                    out["evaluations"] += 1
                    trail.append("io_fault")
                    if s_["kind"] != "outdir_is_file" and os.path.isdir(bad):
                        os.chmod(bad, 0o700)
                    continue
                key = (s_["m"], s_["o"], s_["e"])
                g = golden[key]
                if k == "fault":
                    total = max(2, g["calls"] or 2)
                    at = max(1, int(s_["frac"] * total))
                    r_ = one_compile(srcs[s_["m"]], "net", OPTION_POOL[s_["o"]], s_["e"], os.path.join(wd, "s%d" % si), fault_at=at)
                    out["evaluations"] += 1
                    fired = r_["exc_type"] == "InjectedFault"
                    out["counters"]["fault_injected_exception_fired"] = out["counters"].get("fault_injected_exception_fired", 0) + int(fired)
                    if fired:
                        mod = (r_.get("site") or "?").split(":")[0]
                        d_ = out["counters"].setdefault("fault_module", {})
                        d_[mod] = d_.get(mod, 0) + 1
                    trail.append("fault@" + (r_.get("site") or "-"))
                    continue
                r_ = one_compile(client_bufs[s_["m"]] if s_["e"] == "convert_bytes" else srcs[s_["m"]], "net", OPTION_POOL[s_["o"]], s_["e"], os.path.join(wd, "s%d" % si))
                out["evaluations"] += 1
                if r_.get("src_modified"):
                    out["viol"].append(dict(prop="C14", oracle="input_model_modified", step=si, entry=s_["e"], sig=dict(oracle="input_model_modified")))
                prev = trail[-1].split("@")[0] if trail else "start"
                if (r_["rc"], r_["exc_type"]) != (g["rc"], g["exc_type"]):
                    out["viol"].append(dict(prop="C14", oracle="history_changes_outcome", step=si, entry=s_["e"], after=trail[-3:], got=dict(rc=r_["rc"], exc=r_["exc_type"], site=r_.get("site"), msg=r_.get("msg")),
                                            golden=dict(rc=g["rc"], exc=g["exc_type"]),
                                            sig=dict(oracle="history_changes_outcome", exc=r_["exc_type"], site=(r_.get("site") or "").split(":")[0] + ":" + (r_.get("site") or "").split(":")[-1])))
                elif r_["out"] != g["out"] or (s_["e"] == "main" and r_["csv"] != g["csv"]):
                    out["viol"].append(dict(prop="C14", oracle="history_changes_output", step=si, entry=s_["e"], after=trail[-3:], got=r_["out"], golden=g["out"],
                                            csv_differs=r_["csv"] != g["csv"], sig=dict(oracle="history_changes_output", after=prev)))
                if r_["rc"] == 0:
                    completed += 1
                trail.append("compile:" + s_["e"])
            out["nontrivial"] = completed >= 2
            out["golden_digests"] = {seeds.digest([pool[k[0]], OPTION_POOL[k[1]], k[2]]): (g["out"], g["csv"]) for k, g in golden.items() if g["rc"] == 0}
            out["golden_cases"] = {seeds.digest([pool[k[0]], OPTION_POOL[k[1]], k[2]]): dict(recipe=pool[k[0]], opts=OPTION_POOL[k[1]], entry=k[2]) for k in golden}
            out["sample"] = dict(steps=desc["steps"], pool_layers=[[L["op"] for L in rec["layers"]] for rec in pool], trail=trail)
        finally:
            shutil.rmtree(wd, ignore_errors=True)
        return out

    def api_step(self, s_):
        from ethosu.vela import api

        acc = getattr(api.NpuAccelerator, s_["acc"])
        api.npu_create_driver_payload([0x12345678, 0xFFFF0000], acc)
        op = api.NpuPoolingOperation(api.NpuPoolingOp.MAX)
        fm = api.NpuFeatureMap()
        fm.data_type = api.NpuDataType.INT8
        fm.region = 1
        fm.shape = api.NpuShape3D(8, 8, 16)
        fm.layout = api.NpuLayout.NHWC
        fm.tiles = api.NpuTileBox(8, 0, 8, [0, 0, 0, 0])
        fm.quantization = api.NpuQuantization(0.05, 0)
        op.ifm = fm
        op.ofm = fm
        op.kernel = api.NpuKernel(1, 1)
        op.padding = api.NpuPadding(0, 0, 0, 0)
        api.npu_find_block_configs(op, acc)

    # ---- cross-interpreter comparison of goldens (hash seed / heap / uuid independence)
    def aggregate(self, descs, results):
        agg = super().aggregate(descs, results)
        seen = {}
        for desc, res in zip(descs, results):
            if res is None or res[0] != "ok":
                continue
            val = res[1]
            for k, dig in (val.get("golden_digests") or {}).items():
                env = desc.get("env")
                if k in seen and seen[k][0] != tuple(dig) and seen[k][1] != env:
                    case = val["golden_cases"][k]
                    agg["viol"].append((dict(kind="env_pair", case=case, envs=[seen[k][1], env]),
                                        dict(prop="C14", oracle="environment_changes_output", envs=[seen[k][1], env], sig=dict(oracle="environment_changes_output"))))
                seen.setdefault(k, (tuple(dig), env))
        agg["counters"]["goldens_compared_across_interpreters"] = len(seen)
        return agg

    def run_env_pair(self, desc):
        case = desc["case"]
        digs = []
        for env in desc["envs"]:
            d = dict(pool=[case["recipe"]], steps=[dict(k="compile", m=0, o=0, e=case["entry"])], _opts=case["opts"])
            res = self.run_in_interpreters([dict(kind="golden_only", case=case)], [env], dict(timeout=200, budget=200), __import__("time").time())
            st, val = res[0]
            if st != "ok":
                raise RuntimeError("golden interpreter failed: " + str(val)[-200:])
            digs.append(val["digest"])
        out = dict(viol=[], counters={}, key=seeds.digest(desc), nontrivial=True, evaluations=2)
        if digs[0] != digs[1]:
            out["viol"].append(dict(prop="C14", oracle="environment_changes_output", envs=desc["envs"], digests=digs, sig=dict(oracle="environment_changes_output")))
        return out

    def _guarded(self, desc):
        if desc.get("kind") == "golden_only":
            import tempfile
            import shutil

            c = desc["case"]
            wd = tempfile.mkdtemp(prefix="verif-g-")
            try:
                r_ = one_compile(netgen.build_bytes(c["recipe"]), "net", c["opts"], c["entry"], wd)
            finally:
                shutil.rmtree(wd, ignore_errors=True)
            return dict(digest=(r_["out"], r_["csv"]), viol=[], counters={}, key=None, nontrivial=False)
        return self.run_case(desc)

    def minimise(self, desc, sig):
        if desc.get("kind") == "env_pair":
            return desc
        best = desc
        changed = True
        n = 0
        while changed and n < 30:
            changed = False
            for i in range(len(best["steps"]) - 1, -1, -1):
                if len(best["steps"]) <= 1:
                    break
                cand = dict(best, steps=best["steps"][:i] + best["steps"][i + 1:])
                n += 1
                if self.still_fails(cand, sig):
                    best = cand
                    changed = True
                    break
        return best


# ======================================================================================================== C18
MEMS = ["Sram", "Dram", "OnChipFlash", "OffChipFlash"]
BUNDLED_DIR = os.path.join(netsim.C.REPO, "ethosu", "config_files")


class RefError(Exception):
    pass


def parse_ini_text(text):
    import configparser

    cp = configparser.ConfigParser()
    cp.read_string(text)
    return {s: dict(cp.items(s)) for s in cp.sections()}


def ref_resolve(files, sys_name, mem_name, acc, cli_cache):
    """Executable reading of OPTIONS.md ('Configuration File', 'Memory Modes', 'Arena Cache Size').  files: list of
    {section: {key: value}} in command-line order.  -> dict of expected values; raises RefError where the documentation
    says the configuration is rejected."""
    merged = {}
    for f in files:
        for sec, kv in f.items():
            merged.setdefault(sec, {}).update(kv)

    def lookup(section, key, depth=0):
        if section not in merged:
            raise RefError(f"section {section} not found")
        sec = merged[section]
        val = None
        if "inherit" in sec:
            if sec["inherit"] == section or depth > 20:
                raise RefError("inherit references its own section")
            val = lookup(sec["inherit"], key, depth + 1)
        if key in sec:
            val = sec[key]
        return val

    max_addr = 1 << (40 if acc.startswith("ethos-u65") else 32)
    exp = {}
    ssec = "System_Config." + sys_name
    if ssec not in merged:
        raise RefError("unknown system config")
    v = lookup(ssec, "core_clock")
    exp["core_clock"] = float(v) if v is not None else 1.0
    ports = {}
    for p in ("axi0_port", "axi1_port"):
        v = lookup(ssec, p)
        ports[p] = v if v is not None else "Sram"
        if ports[p] not in MEMS:
            raise RefError("bad port")
    per_mem = {}
    for p in ("axi0_port", "axi1_port"):
        m = ports[p]
        cs = lookup(ssec, m.lower() + "_clock_scale")
        bl = lookup(ssec, m.lower() + "_burst_length")
        rl = lookup(ssec, m.lower() + "_read_latency")
        wl = lookup(ssec, m.lower() + "_write_latency")
        per_mem[m] = dict(clock_scales=float(cs) if cs is not None else 1.0, burst_length=int(bl) if bl is not None else 1,
                          read_latency=int(rl) if rl is not None else None, write_latency=int(wl) if wl is not None else None)
    msec = "Memory_Mode." + mem_name
    if msec not in merged:
        raise RefError("unknown memory mode")
    areas = {}
    for a in ("const_mem_area", "arena_mem_area", "cache_mem_area"):
        v = lookup(msec, a)
        areas[a] = v if v is not None else "Axi0"
        if areas[a] not in ("Axi0", "Axi1"):
            raise RefError("bad area")
    v = lookup(msec, "arena_cache_size")
    cache = int(v) if v is not None else max_addr
    cache_from_file = v is not None

    def mapped(a):
        return ports["axi0_port" if areas[a] == "Axi0" else "axi1_port"]

    # SRAM-only systems: constants are described as living in an on-chip flash with the characteristics of the SRAM
    if mapped("const_mem_area") == "Sram" and areas["const_mem_area"] == areas["arena_mem_area"] == areas["cache_mem_area"]:
        if areas["const_mem_area"] == "Axi0":
            areas["const_mem_area"] = "Axi1"
            ports["axi1_port"] = "OnChipFlash"
        else:
            areas["const_mem_area"] = "Axi0"
            ports["axi0_port"] = "OnChipFlash"
        per_mem["OnChipFlash"] = dict(per_mem["Sram"])
    if cli_cache is not None:
        cache = cli_cache
    if mapped("const_mem_area") not in ("Dram", "OnChipFlash", "OffChipFlash"):
        raise RefError("const_mem_area must be Dram/OnChipFlash/OffChipFlash")
    if mapped("arena_mem_area") not in ("Sram", "Dram"):
        raise RefError("arena_mem_area must be Sram/Dram")
    if mapped("cache_mem_area") != "Sram":
        raise RefError("cache_mem_area must be Sram")
    if cache < 0 or cache > max_addr:
        raise RefError("arena_cache_size out of range")
    exp.update(axi0_port=ports["axi0_port"], axi1_port=ports["axi1_port"], per_mem=per_mem, const_mem_area=areas["const_mem_area"],
               arena_mem_area=areas["arena_mem_area"], cache_mem_area=areas["cache_mem_area"],
               arena_cache_size=cache if (cli_cache is not None or cache_from_file) else None,
               permanent_storage_mem_area=mapped("const_mem_area"), feature_map_storage_mem_area=mapped("arena_mem_area"),
               fast_storage_mem_area=mapped("cache_mem_area"))
    return exp


def ports_alias(exp):
    """the on-chip flash of an SRAM-only system is an alias of the SRAM entry (same dict contents)"""
    return exp["per_mem"].get("OnChipFlash") == exp["per_mem"].get("Sram")


def parse_verbose_config(txt):
    got = {}
    for line in txt.splitlines():
        m = re.match(r"^\s{3}(\w+) = (.*)$", line)
        if m:
            got[m.group(1)] = m.group(2).strip()
    return got


def ini_text(sections):
    out = []
    for sec, kv in sections.items():
        out.append(f"[{sec}]")
        for k, v in kv.items():
            out.append(f"{k}={v}")
        out.append("")
    return "\n".join(out)


def gen_sections(r, tag):
    """Random system configs and memory modes with inheritance chains; mostly valid, some documented-invalid."""
    secs = {}
    n_sys = r.randint(1, 3)
    names_s = [f"S{tag}{i}" for i in range(n_sys)]
    for i, nm in enumerate(names_s):
        kv = {}
        if i > 0 and r.random() < 0.7:
            kv["inherit"] = "System_Config." + r.choice(names_s[:i])
        if "inherit" not in kv or r.random() < 0.5:
            p0, p1 = r.choice([("Sram", "Dram"), ("Sram", "OffChipFlash"), ("Sram", "OnChipFlash"), ("Dram", "Sram"), ("Sram", "Sram"), ("Dram", "Dram")])
            if r.random() < 0.85:
                kv["axi0_port"] = p0
            if r.random() < 0.85:
                kv["axi1_port"] = p1
        if r.random() < 0.7:
            kv["core_clock"] = r.choice(["500e6", "1e9", "2.5e8", "123456789"])
        for m in MEMS:
            if r.random() < 0.5:
                kv[m + "_clock_scale"] = r.choice(["1.0", "0.5", "0.125", "0.75"])
            if r.random() < 0.4:
                kv[m + "_burst_length"] = str(r.choice([16, 32, 64, 128]))
            if r.random() < 0.3:
                kv[m + "_read_latency"] = str(r.choice([16, 32, 500]))
                kv[m + "_write_latency"] = str(r.choice([16, 32, 250]))
            elif r.random() < 0.25:  # only one of the two latencies: the other stays unspecified
                kv[m + r.choice(["_read_latency", "_write_latency"])] = str(r.choice([16, 32, 64, 250, 500]))
        secs["System_Config." + nm] = kv
    n_mem = r.randint(1, 4)
    names_m = [f"M{tag}{i}" for i in range(n_mem)]
    for i, nm in enumerate(names_m):
        kv = {}
        if i > 0 and r.random() < 0.75:
            kv["inherit"] = "Memory_Mode." + r.choice(names_m[:i])
        if "inherit" not in kv or r.random() < 0.5:
            c, a, ca = r.choice([("Axi1", "Axi0", "Axi0"), ("Axi1", "Axi1", "Axi0"), ("Axi0", "Axi0", "Axi0"), ("Axi1", "Axi0", "Axi1"), ("Axi0", "Axi1", "Axi0")])
            if r.random() < 0.9:
                kv["const_mem_area"] = c
            if r.random() < 0.9:
                kv["arena_mem_area"] = a
            if r.random() < 0.9:
                kv["cache_mem_area"] = ca
        if r.random() < 0.6:
            kv["arena_cache_size"] = str(r.choice([0, 16384, 393216, 524288, 1 << 20, (1 << 32) - 16, (1 << 32) + 16, 1 << 41, -1]))
        secs["Memory_Mode." + nm] = kv
    if r.random() < 0.06:
        nm = r.choice(names_m)
        secs["Memory_Mode." + nm]["inherit"] = "Memory_Mode." + nm
    if r.random() < 0.05:
        secs["Memory_Mode." + r.choice(names_m)]["inherit"] = "Memory_Mode.DoesNotExist"
    return secs, names_s, names_m


class C18(check.Check):
    pid = "C18"
    level = "exploration"
    quick = dict(cases=1500, budget=90, timeout=90)
    thorough = dict(cases=40000, budget=1200, timeout=200)
    components = {"real": ["vela.main argument parsing, configuration path resolution, ArchitectureFeatures._get_vela_config / _read_config"],
                  "model": ["environment simulator: private directory tree, working directory, decoy files", "reference resolver of OPTIONS.md"],
                  "stub": ["the network compiled is a fixed one-operator model (only the resolved configuration is observed)"]}
    assumptions = ["values are observed through --verbose-config; defaults documented only as '1 or the equivalent' are asserted for clock, ports, scales and burst length; a latency the chain leaves unspecified has no documented value and is only required not to follow the value of its sibling latency (twin resolution)",
                   "the arena cache size is asserted only when the command line or the selected memory mode specifies it"]
    rule = ("generated .ini files (1..2 files, 1..3 system configs, 1..4 memory modes, inheritance chains, option subsets, port mappings, "
            "out-of-range / self-inheriting / missing sections) or the bundled Arm/vela.ini given as Dir/file.ini, x selection options x "
            "--arena-cache-size x working directory (private dir, dir with a decoy Arm/vela.ini, bundled config dir, /) x an optional earlier "
            "resolution of a different configuration in the same process; distinct = "
            "digest(case); non-trivial = a configuration file was selected")

    def boot(self):
        super().boot()
        self.model = netgen.build_bytes(dict(name="one", inputs=[dict(shape=[1, 4, 4, 8], dtype="int8", q=[0.05, 0])],
                                             layers=[dict(op="RELU", seed=1, **{"in": [0]})], outputs=[1]))

    def gen_case(self, seed, i, tier):
        r = seeds.rng(seed, "C18", "case", i)
        acc = r.choice(netgen.ACCELS)
        d = dict(acc=acc, files=[], cli_cache=None, cwd=r.choice(["tmp", "tmp", "decoy", "bundled", "root", "userparent"]))
        if r.random() < 0.35:
            d["files"].append(dict(kind="bundled", spec="Arm/vela.ini"))
            secs = None
            d["sys"] = r.choice(["Ethos_U55_Deep_Embedded", "Ethos_U55_High_End_Embedded", "Ethos_U65_Embedded", "Ethos_U65_Mid_End",
                                 "Ethos_U65_High_End", "Ethos_U65_Client_Server"] + (["Nope"] if r.random() < 0.1 else []))
            d["mem"] = r.choice(["Sram_Only", "Shared_Sram", "Dedicated_Sram", "Dedicated_Sram_512KB"] + (["Nope"] if r.random() < 0.1 else []))
            if r.random() < 0.3:
                s2, ns, nm = gen_sections(r, "b")
                d["files"].append(dict(kind="abs", sections=s2))
                if r.random() < 0.5:
                    d["mem"] = r.choice(nm)
        else:
            s1, ns, nm = gen_sections(r, "a")
            d["files"].append(dict(kind=r.choice(["abs", "abs", "rel"]), sections=s1))
            if r.random() < 0.3:
                s2, ns2, nm2 = gen_sections(r, "a" if r.random() < 0.5 else "b")
                d["files"].append(dict(kind="abs", sections=s2))
                ns, nm = ns + ns2, nm + nm2
            d["sys"] = r.choice(ns + (["Nope"] if r.random() < 0.08 else []))
            d["mem"] = r.choice(nm + (["Nope"] if r.random() < 0.08 else []))
        if r.random() < 0.5:
            d["cli_cache"] = r.choice([0, 1, 16384, 100000, 393216, 1 << 24, (1 << 32), (1 << 32) + 1, 1 << 40, (1 << 40) + 1, -5])
        if r.random() < 0.4:
            # history: another configuration is resolved (and a network compiled with it) earlier in the same process; what this one
            # resolves to must not depend on it
            ps, pns, pnm = gen_sections(r, "p")
            d["prior"] = dict(sections=ps, sys=r.choice(pns), mem=r.choice(pnm), acc=r.choice(netgen.ACCELS))
        return d

    def case_layers(self, desc):
        return [f["kind"] for f in desc["files"]] + [desc["cwd"]]

    def run_case(self, desc):
        import tempfile
        import shutil

        out = dict(viol=[], counters={}, key=seeds.digest(desc), nontrivial=True, evaluations=1)
        root = tempfile.mkdtemp(prefix="verif-e-")
        try:
            userdir = os.path.join(root, "user", "cfg")
            os.makedirs(userdir)
            # ("userparent": the user's files sit exactly two levels below the working directory, i.e. their path relative to it has the
            # Dir/file.ini form that is reserved for the bundled directory - an absolute path must still mean the user's file)
            cwd = {"tmp": os.path.join(root, "work"), "decoy": os.path.join(root, "decoywork"), "bundled": BUNDLED_DIR, "root": "/",
                   "userparent": os.path.join(root, "user")}[desc["cwd"]]
            os.makedirs(os.path.join(root, "work"), exist_ok=True)
            if desc["cwd"] == "decoy":
                os.makedirs(os.path.join(cwd, "Arm"))
                with open(os.path.join(cwd, "Arm", "vela.ini"), "w") as f:
                    f.write(ini_text({"System_Config.Ethos_U55_High_End_Embedded": {"core_clock": "1", "axi0_port": "Dram", "axi1_port": "Dram"},
                                      "Memory_Mode.Shared_Sram": {"const_mem_area": "Axi0", "arena_mem_area": "Axi0", "cache_mem_area": "Axi0"}}))
            argv_cfg = []
            parsed = []
            for k, f in enumerate(desc["files"]):
                if f["kind"] == "bundled":
                    argv_cfg += ["--config", f["spec"]]
                    parsed.append(parse_ini_text(open(os.path.join(BUNDLED_DIR, f["spec"])).read()))
                else:
                    p = os.path.join(userdir, f"file{k}.ini")
                    with open(p, "w") as fh:
                        fh.write(ini_text(f["sections"]))
                    spec = p if f["kind"] == "abs" else os.path.relpath(p, cwd)
                    if f["kind"] == "rel" and (len(spec.split(os.sep)) == 2 and not spec.startswith(".")):
                        spec = p
                    argv_cfg += ["--config", spec]
                    parsed.append({s: {kk.lower(): vv for kk, vv in kv.items()} for s, kv in f["sections"].items()})
            src = os.path.join(root, "one.tflite")
            with open(src, "wb") as fh:
                fh.write(self.model)
            argv = [src, "--output-dir", os.path.join(root, "out"), "--accelerator-config", desc["acc"], "--verbose-config",
                    "--system-config", desc["sys"], "--memory-mode", desc["mem"]] + argv_cfg
            if desc["cli_cache"] is not None:
                argv += ["--arena-cache-size", str(desc["cli_cache"])]
            try:
                exp = ref_resolve(parsed, desc["sys"], desc["mem"], desc["acc"], desc["cli_cache"])
                exp_err = None
            except RefError as e:
                exp, exp_err = None, str(e)
            old = os.getcwd()
            if desc.get("prior"):
                pr = desc["prior"]
                pp = os.path.join(userdir, "prior.ini")
                with open(pp, "w") as fh:
                    fh.write(ini_text(pr["sections"]))
                netsim.C.vela_main([src, "--output-dir", os.path.join(root, "out_prior"), "--accelerator-config", pr["acc"], "--config", pp,
                                    "--system-config", pr["sys"], "--memory-mode", pr["mem"]])
                out["counters"]["prior_resolution_in_same_process"] = 1
            os.chdir(cwd)
            try:
                cr = netsim.C.vela_main(argv)
            finally:
                os.chdir(old)
            txt = cr["out"]
            out["counters"]["cwd_" + desc["cwd"]] = 1
            out["counters"]["expect_" + ("error" if exp_err else "ok")] = 1
            ctx = dict(files=[f["kind"] for f in desc["files"]], cwd=desc["cwd"], sys=desc["sys"], mem=desc["mem"], cli_cache=desc["cli_cache"])
            if cr["exc"]:
                out["outcome"] = "internal_exception"
                site = (cr["exc_site"] or "?").split(":")
                out["viol"].append(dict(prop="C18", oracle="internal_exception", exc_type=cr["exc_type"], line=cr["exc_site"], msg=cr["exc_msg"], expected_error=exp_err, ctx=ctx,
                                        sig=dict(oracle="internal_exception", exc_type=cr["exc_type"], site=site[0] + ":" + site[-1])))
            elif exp_err is not None:
                if cr["rc"] == 0:
                    out["outcome"] = "accepted_invalid"
                    out["viol"].append(dict(prop="C18", oracle="invalid_configuration_accepted", reason=exp_err, ctx=ctx, got=parse_verbose_config(txt),
                                            sig=dict(oracle="invalid_configuration_accepted", reason=exp_err)))
                elif "Error:" not in txt:
                    out["outcome"] = "rejected_without_message"
                    out["viol"].append(dict(prop="C18", oracle="rejected_without_error_message", reason=exp_err, ctx=ctx, sig=dict(oracle="rejected_without_error_message")))
                else:
                    out["outcome"] = "rejected_as_documented"
            else:
                if cr["rc"] != 0:
                    out["outcome"] = "rejected_valid"
                    err = [ln for ln in txt.splitlines() if "Error" in ln][:1]
                    out["viol"].append(dict(prop="C18", oracle="valid_configuration_rejected", message=err, ctx=ctx,
                                            sig=dict(oracle="valid_configuration_rejected", files=ctx["files"][0], cwd_dependent=desc["cwd"] != "bundled")))
                else:
                    got = parse_verbose_config(txt)
                    diffs = []
                    for k in ("axi0_port", "axi1_port", "const_mem_area", "arena_mem_area", "cache_mem_area", "permanent_storage_mem_area",
                              "feature_map_storage_mem_area", "fast_storage_mem_area"):
                        if got.get(k) != exp[k]:
                            diffs.append((k, got.get(k), exp[k]))
                    if abs(float(got.get("core_clock", "nan")) - exp["core_clock"]) > 1e-6 * max(1.0, exp["core_clock"]):
                        diffs.append(("core_clock", got.get("core_clock"), exp["core_clock"]))
                    if exp["arena_cache_size"] is not None:
                        g = got.get("arena_cache_size", "").split(" ")[0]
                        if g != str(exp["arena_cache_size"]):
                            diffs.append(("arena_cache_size", got.get("arena_cache_size"), exp["arena_cache_size"]))
                    for m, vals in exp["per_mem"].items():
                        for kk, vv in vals.items():
                            if vv is None:
                                continue
                            g = got.get(f"{m}_{kk}")
                            if g is None or abs(float(g) - float(vv)) > 1e-9:
                                diffs.append((f"{m}_{kk}", g, vv))
                    out["outcome"] = "resolved" if not diffs else "resolved_differently"
                    if diffs:
                        out["viol"].append(dict(prop="C18", oracle="resolved_value_differs", diffs=diffs[:6], ctx=ctx,
                                                sig=dict(oracle="resolved_value_differs", key=diffs[0][0])))
                    # an option the selected chain leaves unspecified has no documented numeric default here (latencies), but it
                    # cannot depend on the value of a *different* option: change the specified sibling everywhere and resolve again
                    for m, vals in exp["per_mem"].items():
                        given = [kk for kk in ("read_latency", "write_latency") if vals.get(kk) is not None]
                        if len(given) != 1 or m == "OnChipFlash" and "Sram" in exp["per_mem"] and ports_alias(exp):
                            continue
                        other = "write_latency" if given[0] == "read_latency" else "read_latency"
                        key = f"{m}_{given[0]}".lower()
                        changed = False
                        for k, f in enumerate(desc["files"]):
                            if f["kind"] == "bundled":
                                continue
                            secs2 = {sn: {kk: (str(int(vv) + 7) if kk.lower() == key else vv) for kk, vv in kv.items()} for sn, kv in f["sections"].items()}
                            changed = changed or secs2 != f["sections"]
                            with open(os.path.join(userdir, f"file{k}.ini"), "w") as fh:
                                fh.write(ini_text(secs2))
                        if not changed:
                            continue
                        os.chdir(cwd)
                        try:
                            cr2 = netsim.C.vela_main(argv)
                        finally:
                            os.chdir(old)
                        out["counters"]["sibling_option_twin"] = out["counters"].get("sibling_option_twin", 0) + 1
                        got2 = parse_verbose_config(cr2["out"])
                        if cr2["rc"] == 0 and not cr2["exc"] and got2.get(f"{m}_{other}") != got.get(f"{m}_{other}"):
                            out["outcome"] = "unspecified_follows_sibling"
                            out["viol"].append(dict(prop="C18", oracle="unspecified_option_follows_another_option", unspecified=f"{m}_{other}", changed=f"{m}_{given[0]}",
                                                    before=got.get(f"{m}_{other}"), after=got2.get(f"{m}_{other}"), ctx=ctx,
                                                    sig=dict(oracle="unspecified_option_follows_another_option", key=other)))
                        break
            out["sample"] = dict(argv=[a if not a.startswith(root) else a.replace(root, "<tmp>") for a in argv[2:]], cwd=desc["cwd"], outcome=out.get("outcome"), expected_error=exp_err)
        finally:
            shutil.rmtree(root, ignore_errors=True)
        return out
