"""Value-level checks: the compiled artefact executed on the runtime + NPU datapath peers against the reference interpreter
of the SOURCE model (C01), encoded weight/scale streams and cache reuse (C08), striping (C10)."""
import copy

import numpy as np

from . import artefact, check, checks_net, netgen, netsim, refint, runtime, seeds
from .npu import arith


def gen_inputs(model, seed, n):
    """seeded input tensors: uniform, extremes, constant"""
    rs = np.random.RandomState(seed & 0x7FFFFFFF)
    sets = []
    for k in range(n):
        one = []
        for ti in model.inputs:
            t = model.tensors[ti]
            if t.type not in refint.INT_RANGE:
                raise refint.Unsupported("non-integer model input")
            lo, hi = refint.INT_RANGE[t.type]
            if k == 0:
                x = rs.randint(lo, hi + 1, size=t.shape)
            elif k == 1:
                x = rs.choice([lo, hi, (lo + hi + 1) // 2, lo + 1, hi - 1], size=t.shape)
            else:
                x = np.full(t.shape, rs.randint(lo, hi + 1))
            one.append(x.astype(np.int64))
        sets.append(one)
    return sets


def value_compare(src_bytes, out_bytes, opts, seed, n_inputs=2):
    """-> dict(status, mismatches=[...], weight_logs)   status: ok | unavailable:<why>"""
    sm = artefact.load(src_bytes)
    om = artefact.load(out_bytes)
    plan = runtime.Plan(om, netsim.acc_of(opts), netsim.is_spilling(opts))
    res = dict(status="ok", mismatches=[], weight_logs=None, n_npu=len(plan.eops), plan=plan, src=sm)
    try:
        inputs = gen_inputs(sm, seed, n_inputs)
    except refint.Unsupported as e:
        res["status"] = "unavailable:reference:" + str(e)[:60]
        return res
    if len(sm.outputs) != len(om.outputs) or len(sm.inputs) != len(om.inputs):
        res["status"] = "unavailable:interface differs (reported by C11)"
        return res
    for k, xs in enumerate(inputs):
        try:
            ref, tol = refint.run(sm, dict(zip(sm.inputs, xs)))
        except refint.Unsupported as e:
            res["status"] = "unavailable:reference:" + str(e)[:60]
            return res
        outs = []
        inexact = False
        try:
            for g in (0, 1):  # two different garbage fills: the result must not depend on them
                vr = runtime.ValueRun(plan, seeds.derive(seed, "garbage", k, g))
                outs.append(vr.run(xs))
                res["weight_logs"] = vr.weight_logs
                inexact = vr.inexact
        except (arith.NotModelled, refint.Unsupported) as e:
            res["status"] = "unavailable:datapath:" + str(e)[:60]
            return res
        except ValueError as e:
            res["mismatches"].append(dict(oracle="weight_stream_malformed", msg=str(e)[:200], input_set=k))
            return res
        for j, (so, oo) in enumerate(zip(sm.outputs, om.outputs)):
            a = np.asarray(ref[so]).astype(np.int64).reshape(-1)
            b0 = outs[0][j].astype(np.int64).reshape(-1)
            b1 = outs[1][j].astype(np.int64).reshape(-1)
            if a.size != b0.size:
                res["mismatches"].append(dict(oracle="output_size", output=j, ref=int(a.size), got=int(b0.size)))
                continue
            if not np.array_equal(b0, b1):
                res["mismatches"].append(dict(oracle="garbage_dependent_output", output=j, n=int((b0 != b1).sum()), input_set=k))
            d = np.abs(a - b0)
            t = tol.get(so, 0)
            if t is None:
                res["unverifiable_outputs"] = res.get("unverifiable_outputs", 0) + 1  # an approximate operator feeds a rescaling one
                continue
            t = int(t)
            if inexact:
                # the hardware tanh / sigmoid unit took part: its bit-level behaviour is not documented, the model of it is the exact
                # function rounded once.  Such results are only checked for gross errors: 1 step of an 8-bit output on top of the
                # reference's own tolerance, 1/1000 of the range of a 16-bit one
                t = max(t + 1, 2) if sm.tensors[so].type in ("INT8", "UINT8") else max(t, 32)
                res["inexact_outputs"] = res.get("inexact_outputs", 0) + 1
            if d.size and d.max() > t:
                i = int(np.argmax(d))
                res["mismatches"].append(dict(oracle="value_mismatch", output=j, tname=sm.tensors[so].name, tolerance=t, max_abs_diff=int(d.max()), n_diff=int((d > t).sum()),
                                              n=int(d.size), first_index=i, ref=int(a[i]), got=int(b0[i]), input_set=k))
    return res


class ValCheck(checks_net.NetCheck):
    n_inputs = {"quick": 2, "thorough": 3}
    components = {"real": ["ethosu.vela compiler (whole pipeline incl. weight encoder)"],
                  "model": ["reference interpreter of the source model (TFLite reference kernels in numpy)", "NPU datapath (vendored weight decoder, traversal, "
                            "scaling, LUT, pooling, elementwise)", "driver, register file, TFLM arena runtime with garbage-filled memories"], "stub": []}
    assumptions = ["datapath and reference kernels calibrated family by family on the unchanged tree (DESIGN.md 3.6); families not modelled are counted as "
                   "'value oracle unavailable', never as violations", "exact/+-1 split as in the property statement"]

    def gen_case(self, seed, i, tier):
        r = seeds.rng(seed, self.pid, "case", i)
        recipe = self.gen_recipe(r)
        opts, _ = self.gen_options(r)
        if recipe.get("note") == "striped_tables" and r.random() < 0.6 and "--accelerator-config" in opts:
            # 16-bank configurations: the table area doubles as working memory of operations without a table
            opts[opts.index("--accelerator-config") + 1] = r.choice(["ethos-u55-32", "ethos-u55-64"])
            for k_ in ("--system-config", "--memory-mode", "--config"):
                if k_ in opts:
                    j_ = opts.index(k_)
                    del opts[j_:j_ + 2]
        return dict(recipe=recipe, opts=opts, seed=seeds.derive(seed, self.pid, "inputs", i), n_inputs=self.n_inputs[tier], tags=self.with_tags)

    with_tags = False

    def gen_recipe(self, r):
        if r.random() < 0.12:
            # tall feature maps through convolutions and table activations: cascades whose operators run as several stripes
            cfg = netgen.swarm_config(r, "stripes")
            cfg["fams"] = ["conv", "dw", "lut", "lut", "pool", "act"]
            cfg["size"] = "tall"
            rec = netgen.gen_recipe(r, cfg)
            rec["note"] = "striped_tables"
            return rec
        cfg = netgen.swarm_config(r, "value")
        cfg["fams"] = [f for f in cfg["fams"] if f not in ("cpu",)] or ["conv"]
        if r.random() < 0.85:
            cfg["fams"] = [f for f in cfg["fams"] if f not in ("mean", "softmax")] or ["conv"]
        return netgen.gen_recipe(r, cfg)

    def value_viol(self, desc, vc, layers):
        out = []
        for mm in vc["mismatches"]:
            out.append(dict(prop=self.value_prop(mm), layers=layers, sig=dict(oracle=mm["oracle"]), **mm))
        return out

    def value_prop(self, mm):
        return "C01"

    def run_case(self, desc):
        layers = [L["op"] for L in desc["recipe"]["layers"]]
        out = dict(viol=[], counters={}, key=seeds.digest([desc["recipe"], desc["opts"]]), nontrivial=False, evaluations=1)
        try:
            src = netgen.build_bytes(desc["recipe"])
        except Exception as ex:
            raise RuntimeError("netgen produced an inconsistent recipe: " + repr(ex)[:100])
        self.pre_compile()
        try:
            cr = netsim.compile_bytes(src, desc["opts"])
        finally:
            self.post_compile()
        if cr["exc"] or cr["rc"] != 0 or cr["out_bytes"] is None:
            out["outcome"] = "not_compiled"
            out["counters"]["not_compiled"] = 1
            return out
        vc = value_compare(src, cr["out_bytes"], desc["opts"], desc["seed"], desc["n_inputs"])
        out["outcome"] = vc["status"].split(":")[0] + (":" + vc["status"].split(":")[1] if ":" in vc["status"] else "")
        out["counters"]["value_oracle_" + vc["status"].split(":")[0]] = 1
        if vc["status"].startswith("unavailable"):
            out["counters"].setdefault("unavailable_reason", {})[vc["status"][12:60]] = 1
        out["viol"] += self.value_viol(desc, vc, layers)
        out["nontrivial"] = vc["status"] == "ok" and vc["n_npu"] > 0
        out["evaluations"] = 2 * desc["n_inputs"] if vc["status"] == "ok" else 1
        out["counters"]["op_kind"] = {k: 1 for k in set(layers)}
        self.extra(desc, cr, vc, out, layers)
        out["sample"] = dict(layers=layers, input=desc["recipe"]["inputs"][0], options=desc["opts"], value_oracle=vc["status"], npu_ops=vc["n_npu"])
        return out

    def extra(self, desc, cr, vc, out, layers):
        pass

    def pre_compile(self):
        pass

    def post_compile(self):
        pass


class C01(ValCheck):
    pid = "C01"
    quick = dict(cases=2500, budget=100, timeout=150)
    thorough = dict(cases=60000, budget=1500, timeout=300)
    rule = ("netgen 'value' swarm (conv, depthwise, FC, pools, add/sub/mul/min/max, ReLU family, LUT activations, reshape/concat/split/pad/slice, resize, "
            "transpose conv; int8/uint8; a minority with MEAN/SOFTMAX which are mostly outside the datapath model) x option draw; per compile 2-3 seeded "
            "input sets x 2 garbage fills; outputs compared with the reference interpreter of the source model, bit-exact or within 1 LSB by the split "
            "of the property; distinct = digest(recipe, options); non-trivial = value oracle available and >= 1 Ethos-U operator")


# ======================================================================================================== C08
class EncodeSeam:
    """T1 seam around weight_compressor.encode_weight_and_scale_tensor: every result (possibly served from the process-wide
    cache) is compared with a fresh encoding of the same request made with the cache emptied (and restored afterwards)."""

    def __init__(self):
        self.calls = 0
        self.hits = 0
        self.mismatches = []
        self.available = True
        self.orig = None

    @staticmethod
    def content(w_t, s_t):
        src_s = s_t if s_t is not None else w_t
        out = {}
        for key, r in src_s.encoded_ranges.items():
            sc = bytes(src_s.buffer[r.offset:r.offset + r.scale_bytes])
            rw = w_t.encoded_ranges.get(key)
            wb = bytes(w_t.buffer[rw.offset + rw.weight_offset:rw.offset + rw.weight_offset + rw.weight_bytes]) if rw is not None else None
            out[(key.core, key.depth)] = (sc, wb)
        return out, tuple(w_t.double_buffer_sizes)

    def install(self):
        try:
            from ethosu.vela import weight_compressor as wc

            self.wc = wc
            self.orig = wc.encode_weight_and_scale_tensor
            cache = wc.CompressedWeightCache.cache
        except Exception:
            self.available = False
            return
        seam = self

        def wrapper(arch, op, weight_tens, scale_tens, kernel, block_config, depth_offsets):
            before = len(cache)
            res = seam.orig(arch, op, weight_tens, scale_tens, kernel, block_config, depth_offsets)
            seam.calls += 1
            try:
                hit = len(cache) == before
                seam.hits += int(hit)
                saved = dict(cache)
                cache.clear()
                try:
                    fresh = seam.orig(arch, op, weight_tens, scale_tens, kernel, block_config, depth_offsets)
                finally:
                    cache.clear()
                    cache.update(saved)
                a, b = seam.content(*res), seam.content(*fresh)
                if a != b and len(seam.mismatches) < 4:
                    ka, kb = sorted(a[0]), sorted(b[0])
                    seam.mismatches.append(dict(depth_offsets=list(depth_offsets), keys_returned=ka[:8], keys_fresh=kb[:8], double_buffer_returned=a[1],
                                                double_buffer_fresh=b[1], cache_hit=hit, op=str(op.type)))
            except Exception as e:  # the enrichment must never disturb the compilation
                seam.available = False
                seam.error = repr(e)[:200]
            return res

        wc.encode_weight_and_scale_tensor = wrapper

    def remove(self):
        if self.orig is not None:
            self.wc.encode_weight_and_scale_tensor = self.orig


class C08(ValCheck):
    pid = "C08"
    quick = dict(cases=1200, budget=100, timeout=150)
    thorough = dict(cases=30000, budget=1500, timeout=300)
    rule = ("networks of convolution-like operators crafted to collide in the process-wide compression cache (the same weight / bias tensors shared by "
            "several operators with different output scales, IFM types, kernels; large channel counts and small arena caches that force depth slicing "
            "and double buffering; 1 and 2 cores); per case: (1) history machine of two compilations in fresh forks - cache enabled vs every lookup "
            "answering 'miss' - whose outputs must be byte-identical, (2) simulated weight fetch of every CONV/DEPTHWISE: per-core ranges aligned, in "
            "order, disjoint, one 10-byte record per channel, stream decodes (vendored decoder + traversal model) with zero padding, (3) value equality "
            "with the reference; distinct = digest(recipe, options); non-trivial = >= 1 NPU convolution with weights")

    def gen_recipe(self, r):
        if r.random() < 0.06:
            # an unrolled LSTM: the same eight weight tensors are encoded once per time step (and batch), i.e. mostly served from the cache
            tm = r.random() < 0.5
            nb, nt, nf = r.choice([1, 2, 3]), r.choice([2, 3, 4]), r.choice([4, 8, 20])
            L = dict(op="LSTM", units=r.choice([4, 8, 16, 24]), q=[netgen.f32(1 / 128), 0], time_major=tm, wscale=netgen.f32(r.choice([0.002, 0.004])),
                     cell_pow=r.choice([10, 11]), cell_clip=r.choice([0.0, 8.0]), seed=r.randrange(1 << 30), **{"in": [0]})
            return dict(name="net", inputs=[dict(shape=[nt, nb, nf] if tm else [nb, nt, nf], dtype="int8", q=list(netgen._rand_q(r, "int8")))], layers=[L], outputs=[1],
                        dup_names=False)
        H, W, C = r.choice([(8, 8, 8), (6, 6, 16), (10, 4, 32), (4, 4, 64), (12, 12, 4)])
        dtype = r.choice(["int8", "int8", "int8", "uint8", "uint8", "int16"])
        inp_q = list(netgen._rand_q(r, dtype))
        layers = []
        vals = [dict(shape=[1, H, W, C], q=inp_q)]
        shared_id = 0
        bias64 = r.random() < 0.5  # 16-bit IFM: 64-bit bias (reduced 16-bit multiplier records) or 32-bit bias (full records)
        n = r.randint(1, 4)
        for li in range(n):
            src = r.randrange(len(vals)) if r.random() < 0.5 else len(vals) - 1
            x = vals[src]
            _, h, w, c = x["shape"]
            kind = r.choice(["CONV_2D", "CONV_2D", "DEPTHWISE_CONV_2D"])
            # kernels beyond 4 rows/columns and asymmetric dilation: the 8x8 sub-kernel decomposition of the stream depends on both
            k = r.choice([(1, 1), (3, 3), (3, 1), (5, 5), (1, 7), (7, 1), (6, 2), (2, 5), (7, 7), (8, 8)])
            oc = r.choice([8, 16, 32, 64, 96, 128, 200]) if kind == "CONV_2D" else c
            if k[0] * k[1] * c * oc > 400000:
                oc = 8 if kind == "CONV_2D" else c
            L = dict(op=kind, k=list(k), stride=list(r.choice([(1, 1), (1, 1), (2, 2), (1, 2), (3, 3)])),
                     dil=list(r.choice([(1, 1), (1, 1), (2, 2), (2, 1), (1, 2)])), pad="SAME",
                     act=r.choice(["NONE", "RELU", "RELU6"]), q=list(netgen._rand_q(r, dtype)), per_axis=dtype == "int8" and r.random() < 0.5,
                     wstyle=r.choice(["uniform", "sparse", "small", "extreme"]), wscale=netgen.f32(r.choice([0.002, 0.01])), bias=True, seed=r.randrange(1 << 30))
            if dtype == "int16":
                L["bias64"] = bias64
            if kind == "CONV_2D":
                L["oc"] = oc
            if layers and r.random() < 0.4:
                # siamese branch: same geometry as an earlier layer, usually on the same source (same IFM scale), own output scale
                P = r.choice(layers)
                pc = vals[P["in"][0]]["shape"][3]
                cands = [P["in"][0]] * 2 + [i for i, v in enumerate(vals) if v["shape"][3] == pc]
                src = r.choice(cands)
                x = vals[src]
                _, h, w, c = x["shape"]
                kind, k = P["op"], tuple(P["k"])
                oc = P["oc"] if kind == "CONV_2D" else c
                L.update(op=kind, k=list(k), stride=list(P["stride"]) if r.random() < 0.7 else L["stride"], dil=list(P["dil"]))
                if kind == "CONV_2D":
                    L["oc"] = oc
                else:
                    L.pop("oc", None)
            L["in"] = [src]
            # share weights (and bias) with an earlier layer of identical geometry: same cache key, different consumers
            prev = [M for M in layers if M["op"] == kind and M["k"] == L["k"] and M.get("oc") == L.get("oc") and vals[M["in"][0]]["shape"][3] == c]
            if prev and r.random() < 0.6:
                P = r.choice(prev)
                if "shared_w" not in P:
                    P["shared_w"] = shared_id
                    P["shared_b"] = shared_id if r.random() < 0.7 else None
                    shared_id += 1
                L["shared_w"] = P["shared_w"]
                L["shared_b"] = P.get("shared_b")
                L["seed"], L["wstyle"], L["wscale"], L["per_axis"] = P["seed"], P["wstyle"], P["wscale"], P["per_axis"]
                if r.random() < 0.5:
                    L["q"] = list(P["q"])
            layers.append(L)
            oh, ow = netgen.conv_out(h, k[0], L["stride"][0], L["dil"][0], "SAME"), netgen.conv_out(w, k[1], L["stride"][1], L["dil"][1], "SAME")
            vals.append(dict(shape=[1, oh, ow, oc], q=L["q"]))
        used = set(v for L in layers for v in L["in"])
        outs = [i for i in range(1, len(vals)) if i not in used] or [len(vals) - 1]
        return dict(name="net", inputs=[dict(shape=[1, H, W, C], dtype=dtype, q=inp_q)], layers=layers, outputs=outs, dup_names=False)

    def gen_options(self, r):
        opts, cfg = netgen.gen_options(r)
        if "--arena-cache-size" not in opts and r.random() < 0.7:
            opts += ["--arena-cache-size", str(r.choice([4096, 8192, 12000, 20000, 40000]))]
        if r.random() < 0.4 and "--accelerator-config" in opts:
            opts[opts.index("--accelerator-config") + 1] = "ethos-u65-512"
            if "--memory-mode" in opts and opts[opts.index("--memory-mode") + 1] == "Sram_Only":
                opts[opts.index("--memory-mode") + 1] = "Shared_Sram"
                opts[opts.index("--system-config") + 1] = "Ethos_U65_High_End"
        return opts, cfg

    def value_prop(self, mm):
        return "C08" if mm["oracle"] in ("weight_stream_malformed",) else "C01"

    def pre_compile(self):
        self.seam = EncodeSeam()
        self.seam.install()

    def post_compile(self):
        self.seam.remove()

    def own(self, v):
        return v.get("prop") in ("C08",) or (v.get("prop") == "C01" and v.get("oracle") == "value_mismatch")

    def extra(self, desc, cr, vc, out, layers):
        from . import compile as C
        from . import checks_p

        # (1) cached == fresh (T1 seam installed around the compilation)
        seam = self.seam
        out["counters"]["encode_calls"] = seam.calls
        out["counters"]["cache_hits"] = seam.hits
        out["counters"].setdefault("probe", {})["cache_hit"] = int(seam.hits > 0)
        out["counters"]["t1_encode_seam_available"] = int(seam.available)
        for mm in seam.mismatches:
            out["viol"].append(dict(prop="C08", oracle="cached_encoding_differs_from_fresh", layers=layers, sig=dict(oracle="cached_encoding_differs_from_fresh"), **mm))
        # (2) simulated weight fetch: structure of the ranges the registers point at
        plan = vc["plan"]
        n_conv = 0
        for ent in plan.programs.values():
            if ent["prep"] is None:
                continue
            for it in ent["prep"].prog:
                if getattr(it, "is_kernel", False) and it.kind in ("CONV", "DEPTHWISE"):
                    n_conv += 1
                    rng_ = []
                    for core in range(it.ncores):
                        n_ch = len(range(core, it.oc, it.ncores))
                        if core >= len(it.weights):
                            continue
                        (wr, wb, wl), (sr, sb, sl) = it.weights[core], it.scales[core]
                        if n_ch == 0:
                            continue
                        if wb % 16 or wl % 16 or sb % 16 or sl % 16:
                            out["viol"].append(dict(prop="C08", oracle="range_alignment", op=it.idx, core=core, layers=layers, sig=dict(oracle="range_alignment")))
                        need = -(-10 * n_ch // 16) * 16
                        if sl != need:
                            out["viol"].append(dict(prop="C08", oracle="scale_record_count", op=it.idx, core=core, scale_bytes=sl, channels=n_ch, expected=need, layers=layers,
                                                    sig=dict(oracle="scale_record_count")))
                        if wr == sr and not (wb + wl <= sb or sb + sl <= wb):
                            out["viol"].append(dict(prop="C08", oracle="weight_and_scale_ranges_overlap", op=it.idx, core=core, layers=layers, sig=dict(oracle="weight_and_scale_ranges_overlap")))
                        rng_.append((wr, wb, wb + wl))
                    for i_ in range(len(rng_)):
                        for j_ in range(i_ + 1, len(rng_)):
                            (r0, a0, a1), (r1, b0, b1) = rng_[i_], rng_[j_]
                            if r0 == r1 and not (a1 <= b0 or b1 <= a0):
                                out["viol"].append(dict(prop="C08", oracle="core_weight_ranges_overlap", op=it.idx, layers=layers, sig=dict(oracle="core_weight_ranges_overlap")))
        for logs in (vc.get("weight_logs") or {}).values():
            for lg in logs:
                for inf in lg["info"]:
                    if inf["padding_nonzero"]:
                        out["viol"].append(dict(prop="C08", oracle="nonzero_padding_in_weight_stream", op=lg["op"], core=inf["core"], n=inf["padding_nonzero"], layers=layers,
                                                sig=dict(oracle="nonzero_padding_in_weight_stream")))
        out["nontrivial"] = out["nontrivial"] and n_conv > 0
        pr = out["counters"].setdefault("probe", {})
        pr["two_core_weights"] = int(any(getattr(it, "ncores", 1) == 2 and getattr(it, "weights", None) for ent in plan.programs.values() if ent["prep"] for it in ent["prep"].prog))
        pr["shared_weights"] = int(any("shared_w" in L for L in desc["recipe"]["layers"]))
        pr["depth_sliced"] = int(n_conv > sum(1 for L in desc["recipe"]["layers"]))
        pr["buffered_weights"] = int(any(getattr(it, "weights", None) and any(w[0] != 0 for w in it.weights) for ent in plan.programs.values() if ent["prep"] for it in ent["prep"].prog))


# ======================================================================================================== C10
class C10(ValCheck):
    pid = "C10"
    quick = dict(cases=1200, budget=100, timeout=150)
    thorough = dict(cases=30000, budget=1500, timeout=300)
    with_tags = True
    rule = ("tall feature maps, kernels 1..8, strides 1..3, dilation 1..2, SAME/VALID/explicit (PAD-fused) padding, nearest/transpose upscaling, split read "
            "offsets and concat write offsets, compiled with --optimise Size / small arena caches on all accelerators so that the scheduler stripes and "
            "cascades; oracles in the simulated run: every OFM byte written exactly once before it is read (no overlap of stripes = no dead store, no gap "
            "= no undefined read / unwritten output), rolling-buffer rows defined when read under all schedules, and values equal to the reference "
            "(a wrong input box or padding of any stripe changes them); distinct = digest(recipe, options); non-trivial = some operator executed as >= 2 "
            "stripes")

    def gen_recipe(self, r):
        cfg = netgen.swarm_config(r, "stripes")
        cfg["dtype"] = r.choice(["int8", "int8", "int8", "uint8", "int16"])
        cfg["fams"] = [f for f in cfg["fams"] if f in ("conv", "dw", "pool", "ew", "act", "lut", "shape", "resize", "tconv")] or ["conv"]
        cfg["size"] = r.choice(["tall", "tall", "small"])
        cfg["depth"] = r.choice([2, 3, 4, 6])
        return netgen.gen_recipe(r, cfg)

    def gen_options(self, r):
        opts, cfg = netgen.gen_options(r)
        if "--optimise" not in opts and r.random() < 0.6:
            opts += ["--optimise", "Size"]
        if "--arena-cache-size" not in opts and r.random() < 0.6:
            opts += ["--arena-cache-size", str(r.choice([4096, 8192, 16384, 30000]))]
        return opts, cfg

    def own(self, v):
        return v.get("prop") == "C10" or (v.get("prop") == "C01" and v.get("oracle") == "value_mismatch")

    def extra(self, desc, cr, vc, out, layers):
        # tag-level run: stripe partition (dead stores), rolling buffers under async schedules
        sim = netsim.simulate(cr["out_bytes"], netsim.acc_of(desc["opts"]), desc["seed"], 2, False, netsim.is_spilling(desc["opts"]), cr.get("t1"))
        out["evaluations"] += sim["stats"]["schedules"]
        # (bytes rewritten by a later stripe of the same operator before anyone read them are counted as a probe only: rolling
        # buffers legitimately recycle rows a strided / VALID consumer never reads, so this is not a sound overlap oracle)
        out["counters"]["unread_rows_recycled"] = len(sim["dead_stores"])
        for v in sim["viol"]:
            if v.get("oracle") in ("uninit_read", "async_uninit_read", "unwritten_output_consumed"):
                vv = dict(v)
                vv.update(prop="C10", oracle="gap_" + v["oracle"], layers=layers, sig=dict(oracle="gap_" + v["oracle"], kind=v.get("kind")))
                out["viol"].append(vv)
        # recorded stripe history (T1 seam): partition of every operator's OFM, receptive field of every stripe
        from . import stripes
        for ent in sim["plan"].programs.values():
            if ent.get("t1") is None:
                out["counters"]["t1_streams_missing"] = out["counters"].get("t1_streams_missing", 0) + 1
                continue
            sv, sc = stripes.check_stream(ent["t1"])
            for k_, n_ in sc.items():
                out["counters"][k_] = out["counters"].get(k_, 0) + n_
            seen_sig = set()
            for v in sv:
                key = (v["oracle"], v.get("block_type"))
                if key in seen_sig:
                    continue
                seen_sig.add(key)
                v.update(layers=layers, sig=dict(oracle=v["oracle"], kind=v.get("block_type")))
                out["viol"].append(v)
        # striping probe: several NPU ops writing disjoint row ranges of the same OFM extent
        n_striped = 0
        for ent in vc["plan"].programs.values():
            if ent["prep"] is None:
                continue
            seen = {}
            for it in ent["prep"].prog:
                if getattr(it, "is_kernel", False):
                    key = (it.kind, it.ofm.region, it.ofm.sy, it.ofm.sx, it.ow, it.oc, it.kh, it.kw, tuple(w[1] for w in it.weights))
                    seen[key] = seen.get(key, 0) + 1
            n_striped += sum(1 for c in seen.values() if c >= 2)
        out["counters"].setdefault("probe", {})["striped_operator"] = int(n_striped > 0)
        out["counters"]["probe"]["multi_tile_fm"] = int(any(getattr(it, "is_kernel", False) and (it.ifm.h0 < it.ih or it.ofm.h0 < it.oh)
                                                            for ent in vc["plan"].programs.values() if ent["prep"] for it in ent["prep"].prog))
        out["nontrivial"] = out["nontrivial"] and n_striped > 0
