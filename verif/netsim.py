"""Orchestration of one network case: recipe -> real compiler -> artefact -> runtime/driver/NPU peers under schedules."""
import csv
import glob
import io
import os
import shutil
import tempfile

from . import artefact, compile as C, netgen, runtime, seeds, fbs
from .npu import engine as E

INI = os.path.join(C.REPO, "ethosu", "config_files", "Arm", "vela.ini")


def subst(opts):
    return [INI if o == "@VELA_INI@" else o for o in opts]


def acc_of(opts):
    for i, o in enumerate(opts):
        if o == "--accelerator-config":
            return opts[i + 1]
    return "ethos-u55-256"


def opt_value(opts, name, default=None):
    for i, o in enumerate(opts):
        if o == name and i + 1 < len(opts):
            return opts[i + 1]
    return default


def is_spilling(opts):
    """Independent reading of OPTIONS.md: the fast scratch lives in a dedicated SRAM (not in the arena) in the
    Dedicated_Sram memory modes, which is also the internal default of Ethos-U65."""
    mm = opt_value(opts, "--memory-mode")
    if mm is None:
        return acc_of(opts).startswith("ethos-u65") and opt_value(opts, "--config") is None
    return mm.startswith("Dedicated_Sram")


def compile_bytes(src_bytes, opts, name="net", keep=False, t1=True):
    """Compile one model with vela.main in this process (call inside a ForkPool child).
    -> dict(rc, exc, exc_type, exc_site, exc_msg, out, out_bytes|None, summary (dict of csv row)|None, files, t1)."""
    d = tempfile.mkdtemp(prefix="verif-c-")
    seam = None
    try:
        if t1:
            from . import t1seam
            seam = t1seam.StripeSeam().install()
        src = os.path.join(d, name + ".tflite")
        with open(src, "wb") as f:
            f.write(src_bytes)
        outd = os.path.join(d, "out")
        res = C.vela_main([src, "--output-dir", outd] + subst(opts))
        res.pop("ret", None)
        res["t1"] = seam.result() if seam is not None else None
        outp = os.path.join(outd, name + "_vela.tflite")
        res["out_bytes"] = open(outp, "rb").read() if os.path.exists(outp) else None
        res["files"] = sorted(os.path.basename(p) for p in glob.glob(os.path.join(outd, "*")))
        res["summary"] = None
        for p in glob.glob(os.path.join(outd, name + "_summary_*.csv")):
            rows = list(csv.DictReader(io.StringIO(open(p).read())))
            if rows:
                res["summary"] = rows[-1]
        return res
    finally:
        if seam is not None:
            seam.remove()
        if not keep:
            shutil.rmtree(d, ignore_errors=True)


def schedules(seed, n_swarm, extremes):
    r = seeds.rng(seed, "policies")
    pols = [E.draw_policy(r) for _ in range(n_swarm)]
    if extremes:
        pols += E.extreme_policies()
    rngs = [seeds.rng(seed, "schedule", i) for i in range(len(pols))]
    return pols, rngs


def simulate(out_bytes, acc, seed, n_swarm=4, extremes=False, spilling=False, t1=None):
    """-> dict(viol=[...], stats, plan facts).  Harness errors propagate as exceptions (classified by the caller)."""
    from . import t1seam
    m = artefact.load(out_bytes)
    plan = runtime.Plan(m, acc, spilling)
    t1_ok, t1_n = t1seam.attach(plan, t1)
    pols, rngs = schedules(seed, n_swarm, extremes)
    inf = runtime.Inference(plan, pols, rngs).run()
    facts = dict(arena_size=plan.arena_size, arena_touch_max=inf.arena_touch_max, n_ops=len(m.ops), n_npu=len(plan.eops),
                 n_tensors=len(m.tensors))
    return dict(viol=[dict(v) for v in inf.viol], stats=inf.stats, facts=facts, failing=inf.failing, model=m, plan=plan, dead_stores=inf.dead_stores)


def run_recipe(recipe, opts, seed, n_swarm=4, extremes=False):
    """Full case.  -> dict(status, ...) status in compiled|rejected|crashed|builderr."""
    try:
        src = netgen.build_bytes(recipe)
    except Exception as ex:  # generator produced an inconsistent recipe: harness-side, not a finding
        return dict(status="builderr", msg=repr(ex)[:200])
    cr = compile_bytes(src, opts)
    res = dict(compile={k: cr[k] for k in ("rc", "exc", "exc_type", "exc_site", "exc_msg")}, src_len=len(src))
    res["console"] = cr["out"][-6000:]
    res["summary"] = cr["summary"]
    if cr["exc"]:
        res["status"] = "crashed"
        return res
    if cr["rc"] != 0 or cr["out_bytes"] is None:
        res["status"] = "rejected"
        return res
    res["status"] = "compiled"
    res["src"] = src
    res["out_bytes"] = cr["out_bytes"]
    sim = simulate(cr["out_bytes"], acc_of(opts), seed, n_swarm, extremes, is_spilling(opts), cr.get("t1"))
    res.update(viol=sim["viol"], stats=sim["stats"], facts=sim["facts"], failing=sim["failing"], model=sim["model"], plan=sim["plan"], dead_stores=sim["dead_stores"])
    return res
