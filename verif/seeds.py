"""One integer decides everything: SplitMix64 derivation of independent sub-streams from VERIF_SEED."""
import os
import random
import hashlib

MASK = (1 << 64) - 1


def splitmix64(x):
    x = (x + 0x9E3779B97F4A7C15) & MASK
    z = x
    z = ((z ^ (z >> 30)) * 0xBF58476D1CE4E5B9) & MASK
    z = ((z ^ (z >> 27)) * 0x94D049BB133111EB) & MASK
    return z ^ (z >> 31)


def derive(seed, *labels):
    """Deterministic 64-bit seed for the sub-stream named by labels (ints or strs); independent of PYTHONHASHSEED."""
    x = splitmix64(seed & MASK)
    for lab in labels:
        if isinstance(lab, int):
            v = lab & MASK
        else:
            v = int.from_bytes(hashlib.sha256(str(lab).encode()).digest()[:8], "little")
        x = splitmix64(x ^ v)
    return x


def rng(seed, *labels):
    return random.Random(derive(seed, *labels))


def base_seed(default):
    v = os.environ.get("VERIF_SEED")
    if v is None or v == "":
        return default
    return int(v)


def digest(obj):
    """Stable short digest of a JSON-able object / bytes."""
    import json

    if isinstance(obj, (bytes, bytearray, memoryview)):
        b = bytes(obj)
    else:
        b = json.dumps(obj, sort_keys=True, default=str).encode()
    return hashlib.sha256(b).hexdigest()[:16]
