"""Independent numpy interpreter of a SOURCE .tflite under TFLite reference-kernel semantics (int64 arithmetic).

run(model, inputs) -> dict(tensor index -> ndarray), tol (tensor index -> allowed |delta| in LSB, by the exact/approximate split
of property C01).  Unsupported operator kinds raise Unsupported (the caller records 'value oracle unavailable')."""
import os
import math

import numpy as np

from .tflschema import ENUMS


SINGLE_ROUNDED_ADD_OPERAND = os.environ.get("VERIF_ADD_DOUBLE_ROUNDING", "0") != "1"
ADD16_TOL = int(os.environ.get("VERIF_ADD16_TOL", 0))


class Unsupported(Exception):
    pass


INT_RANGE = {"INT8": (-128, 127), "UINT8": (0, 255), "INT16": (-32768, 32767), "INT32": (-(1 << 31), (1 << 31) - 1)}


# ---- gemmlowp fixed point -------------------------------------------------------------------------------------
def srdhm(a, b):
    """SaturatingRoundingDoublingHighMul on int64 arrays holding int32 values"""
    a = np.asarray(a, dtype=np.int64)
    b = np.asarray(b, dtype=np.int64)
    ab = a * b
    nudge = np.where(ab >= 0, 1 << 30, 1 - (1 << 30))
    # C++ integer division truncates toward zero
    q = ab + nudge
    res = np.where(q >= 0, q >> 31, -((-q) >> 31))
    overflow = (a == b) & (a == -(1 << 31))
    return np.where(overflow, (1 << 31) - 1, res)


def rdp(x, exponent):
    """RoundingDivideByPOT (round half away from zero)"""
    x = np.asarray(x, dtype=np.int64)
    if np.isscalar(exponent) and exponent == 0:
        return x
    exponent = np.asarray(exponent, dtype=np.int64)
    mask = (np.int64(1) << exponent) - 1
    remainder = x & mask
    threshold = (mask >> 1) + (x < 0)
    return (x >> exponent) + (remainder > threshold)


def quantize_multiplier(d):
    """TFLite QuantizeMultiplier(double) -> (int32 multiplier, shift)"""
    if d == 0.0:
        return 0, 0
    q, shift = math.frexp(d)
    qf = int(round(q * (1 << 31)))  # TfLiteRound = round half away from zero
    qf = int(math.floor(abs(q) * (1 << 31) + 0.5)) * (1 if q >= 0 else -1)
    if qf == (1 << 31):
        qf //= 2
        shift += 1
    if shift < -31:
        shift = 0
        qf = 0
    return qf, shift


def mbqm(x, mult, shift):
    """MultiplyByQuantizedMultiplier (reference, non-ruy): left shift then SRDHM then rounding right shift"""
    x = np.asarray(x, dtype=np.int64)
    shift = np.asarray(shift, dtype=np.int64)
    left = np.maximum(shift, 0)
    right = np.maximum(-shift, 0)
    return rdp(srdhm(x * (np.int64(1) << left), mult), right)


def mbqm64(x, mult, shift):
    """MultiplyByQuantizedMultiplier(int64 x, int32 multiplier, int shift) of the 16x8 reference kernels: 16-bit reduced
    multiplier, one rounding"""
    x = np.asarray(x, dtype=np.int64)
    mult = np.asarray(mult, dtype=np.int64)
    shift = np.asarray(shift, dtype=np.int64)
    red = np.where(mult < 0x7FFF0000, (mult + (1 << 15)) >> 16, 0x7FFF)
    total = 15 - shift
    return (x * red + (np.int64(1) << (total - 1))) >> total


def f32(x):
    return np.float32(x)


def act_range(act, dtype, scale, zp):
    lo, hi = INT_RANGE[dtype]

    def q(v):
        # kernel_util Quantize(): float f / float scale in single precision, then std::round (half away from zero)
        t = float(np.float32(v) / np.float32(scale))
        return zp + (int(math.floor(t + 0.5)) if t >= 0 else -int(math.floor(-t + 0.5)))

    if act == 1:  # RELU
        lo = max(lo, q(0.0))
    elif act == 2:  # RELU_N1_TO_1
        lo, hi = max(lo, q(-1.0)), min(hi, q(1.0))
    elif act == 3:  # RELU6
        lo, hi = max(lo, q(0.0)), min(hi, q(6.0))
    elif act != 0:
        raise Unsupported(f"fused activation {act}")
    return lo, hi


def same_pad(i, k, s, d):
    ke = (k - 1) * d + 1
    o = -(-i // s)
    total = max((o - 1) * s + ke - i, 0)
    return total // 2, total - total // 2, o


def geom(i, k, s, d, padding):
    if padding == 0:  # SAME
        return same_pad(i, k, s, d)
    ke = (k - 1) * d + 1
    return 0, 0, (i - ke) // s + 1


# ---- the interpreter -----------------------------------------------------------------------------------------
class Interp:
    def __init__(self, m):
        self.m = m
        self.vals = {}
        self.tol = {}  # tensor -> accumulated tolerance class: 0 exact, >=1 approximate chain

    def q(self, ti):
        t = self.m.tensors[ti]
        if t.scale is None:
            return None
        return t.scale, t.zp, t.qdim

    def scalar_q(self, ti):
        t = self.m.tensors[ti]
        if t.scale is None:
            raise Unsupported("missing quantisation")
        return float(np.float32(t.scale[0])), int(t.zp[0]) if t.zp else 0

    def get(self, ti):
        if ti in self.vals:
            return self.vals[ti]
        t = self.m.tensors[ti]
        c = t.const()
        if c is None:
            raise Unsupported(f"tensor {ti} has no value")
        v = c.astype(np.float64) if t.type == "FLOAT32" else c.astype(np.int64)
        self.vals[ti] = v
        return v

    def put(self, ti, v, approx=0, ins=(), mode="scale"):
        """store a result.  Tolerance bookkeeping (in LSB of this tensor): 0 = exact, k = within k, None = not comparable.
        mode 'move': the operator only moves / selects / clamps values (an upstream error passes through unchanged);
        mode 'scale': it rescales or accumulates them (an upstream error is amplified by an unknown factor -> not comparable);
        mode 'avg': a convex combination of inputs plus one rounding (error grows by at most 1)."""
        t = self.m.tensors[ti]
        if t.type in INT_RANGE:
            lo, hi = INT_RANGE[t.type]
            v = np.clip(v, lo, hi).astype(np.int64)
        self.vals[ti] = v.reshape(t.shape) if list(v.shape) != list(t.shape) and v.size == t.elems() else v
        up = [self.tol.get(i, 0) for i in ins]
        if any(u is None for u in up):
            self.tol[ti] = None
            return
        base = max(up + [0])
        if base == 0:
            self.tol[ti] = approx
        elif mode == "move":
            self.tol[ti] = base + approx
        elif mode == "avg":
            self.tol[ti] = base + 1
        else:
            self.tol[ti] = None

    def run(self, inputs):
        for ti, v in inputs.items():
            self.vals[ti] = np.asarray(v).astype(np.int64 if self.m.tensors[ti].type != "FLOAT32" else np.float64)
            self.tol[ti] = 0
        for op in self.m.ops:
            fn = getattr(self, "op_" + op.name.split(":")[0], None)
            if fn is None:
                raise Unsupported(op.name)
            fn(op)
        return self.vals

    # ---------------------------------------------------------------- convolutions
    def conv_common(self, op, depthwise):
        o = op.options[1]
        x_i, w_i = op.inputs[0], op.inputs[1]
        b_i = op.inputs[2] if len(op.inputs) > 2 else -1
        x = self.get(x_i)
        if self.m.tensors[w_i].data is None:
            raise Unsupported("dynamic weights")
        w = self.get(w_i)
        xt, wt, yt = self.m.tensors[x_i], self.m.tensors[w_i], self.m.tensors[op.outputs[0]]
        xs, xzp = self.scalar_q(x_i)
        ys, yzp = self.scalar_q(op.outputs[0])
        wscales = [float(np.float32(s)) for s in wt.scale]
        wzp = wt.zp[0] if wt.zp else 0
        N, H, W, C = x.shape
        sh, sw = o["StrideH"], o["StrideW"]
        dh, dw = o.get("DilationHFactor", 1), o.get("DilationWFactor", 1)
        if depthwise:
            _, kh, kw, oc = w.shape
            mult = o.get("DepthMultiplier", 1)
        else:
            oc, kh, kw, _ = w.shape
        pt, pb, OH = geom(H, kh, sh, dh, o["Padding"])
        pl, pr, OW = geom(W, kw, sw, dw, o["Padding"])
        xp = np.zeros((N, H + pt + pb + (kh - 1) * dh + sh, W + pl + pr + (kw - 1) * dw + sw, C), np.int64)
        xp[:, pt:pt + H, pl:pl + W, :] = x - xzp
        acc = np.zeros((N, OH, OW, oc), np.int64)
        wv = w - wzp
        for ky in range(kh):
            for kx in range(kw):
                patch = xp[:, ky * dh:ky * dh + OH * sh:sh, kx * dw:kx * dw + OW * sw:sw, :]
                if depthwise:
                    if mult == 1:
                        acc += patch * wv[0, ky, kx, :]
                    else:
                        acc += np.repeat(patch, mult, axis=3) * wv[0, ky, kx, :]
                elif w.shape[3] != C:
                    # grouped convolution: output channels of group g see input channels [g*C/G, (g+1)*C/G)
                    G = C // w.shape[3]
                    cg, og = C // G, oc // G
                    for g in range(G):
                        acc[..., g * og:(g + 1) * og] += np.tensordot(patch[..., g * cg:(g + 1) * cg], wv[g * og:(g + 1) * og, ky, kx, :], axes=([3], [1]))
                else:
                    acc += np.tensordot(patch, wv[:, ky, kx, :], axes=([3], [1]))
        if b_i >= 0:
            acc = acc + self.get(b_i).reshape(1, 1, 1, -1)
        is_fc_like = False
        if xt.type == "UINT8":
            reals = [float(np.float64(np.float32(np.float32(xs) * np.float32(s))) / np.float64(np.float32(ys))) for s in wscales]
        else:
            reals = [float(np.float64(np.float32(xs)) * np.float64(np.float32(s)) / np.float64(np.float32(ys))) for s in wscales]
        if len(reals) == 1:
            reals = reals * oc
        ms = [quantize_multiplier(r) for r in reals]
        mult_a = np.array([a for a, _ in ms], np.int64).reshape(1, 1, 1, -1)
        shift_a = np.array([b for _, b in ms], np.int64).reshape(1, 1, 1, -1)
        if xt.type == "INT16":
            # 16x8 kernels: 64-bit accumulator and bias, 16-bit ("reduced") multiplier
            # ... unless the bias is 32-bit: then the 32-bit accumulator kernel with the full multiplier is the reference
            if b_i >= 0 and self.m.tensors[b_i].type != "INT64":
                y = mbqm(acc, mult_a, shift_a) + yzp
            else:
                y = mbqm64(acc, mult_a, shift_a) + yzp
        else:
            y = mbqm(acc, mult_a, shift_a) + yzp
        lo, hi = act_range(o.get("FusedActivationFunction", 0), yt.type, ys, yzp)
        self.put(op.outputs[0], np.clip(y, lo, hi), 0, [x_i])

    def op_CONV_2D(self, op):
        self.conv_common(op, False)

    def op_DEPTHWISE_CONV_2D(self, op):
        self.conv_common(op, True)

    def op_FULLY_CONNECTED(self, op):
        o = op.options[1]
        x_i, w_i = op.inputs[0], op.inputs[1]
        b_i = op.inputs[2] if len(op.inputs) > 2 else -1
        x = self.get(x_i)
        w = self.get(w_i)
        xs, xzp = self.scalar_q(x_i)
        ws, wzp = self.scalar_q(w_i)
        ys, yzp = self.scalar_q(op.outputs[0])
        yt = self.m.tensors[op.outputs[0]]
        int16 = self.m.tensors[x_i].type == "INT16"
        wide = int16 and not (b_i >= 0 and self.m.tensors[b_i].type != "INT64")  # 32-bit bias: 32-bit accumulator kernel
        oc, n_in = w.shape
        x2 = x.reshape(-1, n_in) - xzp
        acc = x2 @ (w - wzp).T
        if b_i >= 0:
            acc = acc + self.get(b_i).reshape(1, -1)
        real = float(np.float64(np.float32(np.float32(xs) * np.float32(ws))) / np.float64(np.float32(ys)))
        m_, s_ = quantize_multiplier(real)
        y = (mbqm64(acc, m_, s_) if wide else mbqm(acc, m_, s_)) + yzp
        lo, hi = act_range(o.get("FusedActivationFunction", 0), yt.type, ys, yzp)
        self.put(op.outputs[0], np.clip(y, lo, hi).reshape(yt.shape), 0, [x_i])

    # ---------------------------------------------------------------- pooling
    def pool(self, op, mode):
        o = op.options[1]
        x_i = op.inputs[0]
        x = self.get(x_i)
        N, H, W, C = x.shape
        kh, kw, sh, sw = o["FilterHeight"], o["FilterWidth"], o["StrideH"], o["StrideW"]
        pt, pb, OH = geom(H, kh, sh, 1, o["Padding"])
        pl, pr, OW = geom(W, kw, sw, 1, o["Padding"])
        xs, xzp = self.scalar_q(x_i)
        ys, yzp = self.scalar_q(op.outputs[0])
        yt = self.m.tensors[op.outputs[0]]
        if abs(xs - ys) > 1e-12 or xzp != yzp:
            raise Unsupported("pool with different in/out quantisation")
        big = np.iinfo(np.int64).min // 4
        xp = np.full((N, H + pt + pb + kh + sh, W + pl + pr + kw + sw, C), big if mode == "max" else 0, np.int64)
        xp[:, pt:pt + H, pl:pl + W, :] = x
        valid = np.zeros((H + pt + pb + kh + sh, W + pl + pr + kw + sw), np.int64)
        valid[pt:pt + H, pl:pl + W] = 1
        if mode == "max":
            y = np.full((N, OH, OW, C), big, np.int64)
        else:
            y = np.zeros((N, OH, OW, C), np.int64)
            cnt = np.zeros((OH, OW), np.int64)
        for ky in range(kh):
            for kx in range(kw):
                patch = xp[:, ky:ky + OH * sh:sh, kx:kx + OW * sw:sw, :]
                if mode == "max":
                    y = np.maximum(y, patch)
                else:
                    y += patch
                    cnt += valid[ky:ky + OH * sh:sh, kx:kx + OW * sw:sw]
        approx = 0
        if mode == "avg":
            c = cnt.reshape(1, OH, OW, 1)
            y = np.where(y >= 0, (y + c // 2) // c, -((-y + c // 2) // c))
            approx = 1 if (pt or pb or pl or pr) else 0
        lo, hi = act_range(o.get("FusedActivationFunction", 0), yt.type, ys, yzp)
        self.put(op.outputs[0], np.clip(y, lo, hi), approx, [x_i], mode="move" if mode == "max" else "avg")

    def op_MAX_POOL_2D(self, op):
        self.pool(op, "max")

    def op_AVERAGE_POOL_2D(self, op):
        self.pool(op, "avg")

    # ---------------------------------------------------------------- elementwise
    def op_ADD(self, op, sub=False):
        a_i, b_i = op.inputs
        a, b = self.get(a_i), self.get(b_i)
        t = self.m.tensors[a_i].type
        if t not in ("INT8", "UINT8", "INT16"):
            raise Unsupported("add/sub " + t)
        s1, z1 = self.scalar_q(a_i)
        s2, z2 = self.scalar_q(b_i)
        so, zo = self.scalar_q(op.outputs[0])
        left_shift = 20
        if t == "INT16":
            # general-scale path of the 16-bit kernel (the legacy path needs all three scales to be powers of two)
            left_shift = 15
            if all(abs(math.log2(float(v)) - round(math.log2(float(v)))) < 1e-9 for v in (s1, s2, so)):
                raise Unsupported("int16 add/sub with power-of-two scales (legacy kernel)")
        twice_max = 2.0 * max(float(np.float32(s1)), float(np.float32(s2)))
        m1, sh1 = quantize_multiplier(float(np.float32(s1)) / twice_max)
        m2, sh2 = quantize_multiplier(float(np.float32(s2)) / twice_max)
        mo, sho = quantize_multiplier(twice_max / ((1 << left_shift) * float(np.float32(so))))
        def operand(v, m_, sh_):
            """input scaling (v << left_shift) * m_ * 2^sh_ with ONE rounding.  The reference kernel rounds twice here (doubling high
            mul, then the rounding right shift by -sh_); the NPU's operand scaling is a single multiply-shift, and the two differ by
            one in about 1 of 10^4 elements, which shows at exact ties of the output rounding.  Which of the two the silicon does is
            not documented bit by bit, so the reference follows the datapath model here (DESIGN 11.3): everything else about
            ADD / SUB stays bit-exact instead of being compared within one step."""
            if SINGLE_ROUNDED_ADD_OPERAND and left_shift + sh_ >= 0:
                return srdhm(v * (np.int64(1) << (left_shift + sh_)), m_)
            return mbqm(v * (1 << left_shift), m_, sh_)

        sa = operand(a - z1, m1, sh1)
        sb = operand(b - z2, m2, sh2)
        raw = sa - sb if sub else sa + sb
        y = mbqm(raw, mo, sho) + zo
        lo, hi = act_range(op.options[1].get("FusedActivationFunction", 0), self.m.tensors[op.outputs[0]].type, so, zo)
        # 16-bit: the datapath model rounds the rescaled operand once where the reference rounds twice; they differ by one step
        # about once in 10^4 elements on the unchanged tree, so this family is compared within +-1 (DESIGN Appendix A, rung 2)
        self.put(op.outputs[0], np.clip(y, lo, hi), ADD16_TOL if t == "INT16" else 0, [a_i, b_i])

    def op_SUB(self, op):
        self.op_ADD(op, sub=True)

    def op_MUL(self, op):
        a_i, b_i = op.inputs
        a, b = self.get(a_i), self.get(b_i)
        t = self.m.tensors[a_i].type
        if t not in ("INT8", "UINT8", "INT16"):
            raise Unsupported("mul " + t)
        s1, z1 = self.scalar_q(a_i)
        s2, z2 = self.scalar_q(b_i)
        so, zo = self.scalar_q(op.outputs[0])
        # the reference evaluates `input1 scale * input2 scale / output scale` on float operands, i.e. in single precision,
        # before it widens the result to double (visible in the low bits of the multiplier, and with 16-bit data in the output)
        real = float(np.float32(np.float32(np.float32(s1) * np.float32(s2)) / np.float32(so)))
        m_, s_ = quantize_multiplier(real)
        y = mbqm((a - z1) * (b - z2), m_, s_) + zo
        lo, hi = act_range(op.options[1].get("FusedActivationFunction", 0), self.m.tensors[op.outputs[0]].type, so, zo)
        self.put(op.outputs[0], np.clip(y, lo, hi), 0, [a_i, b_i])

    def minmax(self, op, fn):
        a_i, b_i = op.inputs
        if self.q(a_i) != self.q(b_i) or self.q(a_i) != self.q(op.outputs[0]):
            raise Unsupported("min/max with differing quantisation")
        self.put(op.outputs[0], fn(self.get(a_i), self.get(b_i)), 0, [a_i, b_i], mode="move")

    def op_MINIMUM(self, op):
        self.minmax(op, np.minimum)

    def op_MAXIMUM(self, op):
        self.minmax(op, np.maximum)

    # ---------------------------------------------------------------- activations
    def requant(self, x_i, y_i):
        xs, xzp = self.scalar_q(x_i)
        ys, yzp = self.scalar_q(y_i)
        x = self.get(x_i)
        if abs(xs - ys) < 1e-15 and xzp == yzp:
            return x
        m_, s_ = quantize_multiplier(float(np.float64(np.float32(xs)) / np.float64(np.float32(ys))))
        return mbqm(x - xzp, m_, s_) + yzp

    def relu(self, op, act):
        x_i, y_i = op.inputs[0], op.outputs[0]
        ys, yzp = self.scalar_q(y_i)
        y = self.requant(x_i, y_i)
        lo, hi = act_range(act, self.m.tensors[y_i].type, ys, yzp)
        xs, xzp = self.scalar_q(x_i)
        self.put(y_i, np.clip(y, lo, hi), 0, [x_i], mode="move" if (abs(xs - ys) < 1e-15 and xzp == yzp) else "scale")

    def op_RELU(self, op):
        self.relu(op, 1)

    def op_RELU6(self, op):
        self.relu(op, 3)

    def op_RELU_N1_TO_1(self, op):
        self.relu(op, 2)

    def op_QUANTIZE(self, op):
        x_i, y_i = op.inputs[0], op.outputs[0]
        xt = self.m.tensors[x_i]
        if xt.type == "FLOAT32":
            ys, yzp = self.scalar_q(y_i)
            x = self.get(x_i)
            y = np.where(x >= 0, np.floor(x / ys + 0.5), -np.floor(-x / ys + 0.5)) + yzp
            self.put(y_i, y.astype(np.int64), 0, [x_i])
            return
        self.put(y_i, self.requant(x_i, y_i), 0, [x_i])

    def lut16_unary(self, op, fn):
        """16-bit table operators of the reference (EXP, LOG, SQRT, GELU ...): 513-entry table with midpoint error correction,
        linear interpolation on the low 7 bits"""
        x_i, y_i = op.inputs[0], op.outputs[0]
        xs, xzp = self.scalar_q(x_i)
        ys, yzp = self.scalar_q(y_i)
        xs, ys = float(np.float32(xs)), float(np.float32(ys))
        imin, imax = xs * (-32768 - xzp), xs * (32767 - xzp)
        omin, omax = ys * (-32768 - yzp), ys * (32767 - yzp)
        step = (imax - imin) / 512
        inv = 65536.0 / (omax - omin)

        def rnd(v):
            return math.floor(abs(v) + 0.5) * (1 if v >= 0 else -1)

        def f(v):
            with np.errstate(all="ignore"):
                r = float(fn(np.float64(v)))
            return r

        lut = []
        for i in range(512):
            val, mid, nxt = f(imin + i * step), f(imin + i * step + step / 2), f(imin + (i + 1) * step)
            sample = rnd(val * inv)
            interp = rnd((nxt * inv + rnd(val * inv)) / 2)
            bias = rnd((interp - rnd(mid * inv)) / 2)
            lut.append(min(max(sample - bias, -32768), 32767))
        lut.append(min(max(rnd(f(imax) * inv), -32768), 32767))
        lut = np.array(lut, np.int64)
        x = self.get(x_i)
        idx = 256 + (x >> 7)
        off = x & 0x7F
        base = lut[idx]
        slope = lut[idx + 1] - base
        y = base + ((slope * off + 64) >> 7)
        self.put(y_i, y, 0, [x_i])

    def float_unary(self, op, fn, approx=1):
        x_i, y_i = op.inputs[0], op.outputs[0]
        if self.m.tensors[x_i].type == "INT16" and op.name.split(":")[0] in ("EXP", "LOG", "SQRT", "GELU"):
            return self.lut16_unary(op, fn)
        xs, xzp = self.scalar_q(x_i)
        ys, yzp = self.scalar_q(y_i)
        with np.errstate(all="ignore"):
            real = np.nan_to_num(fn((self.get(x_i) - xzp).astype(np.float64) * xs), nan=-1e30, posinf=1e30, neginf=-1e30)
        y = np.clip(np.where(real >= 0, np.floor(real / ys + 0.5), -np.floor(-real / ys + 0.5)) + yzp, -1e15, 1e15)
        self.put(y_i, y.astype(np.int64), approx, [x_i])

    def op_LOGISTIC(self, op):
        self.float_unary(op, lambda v: 1.0 / (1.0 + np.exp(-v)))

    def op_TANH(self, op):
        self.float_unary(op, np.tanh)

    def op_HARD_SWISH(self, op):
        self.float_unary(op, lambda v: v * np.clip(v + 3.0, 0.0, 6.0) / 6.0)

    def op_EXP(self, op):
        self.float_unary(op, np.exp)

    def op_LOG(self, op):
        with np.errstate(all="ignore"):
            self.float_unary(op, lambda v: np.log(np.maximum(v, np.finfo(np.float64).tiny)))

    def op_SQRT(self, op):
        with np.errstate(all="ignore"):
            self.float_unary(op, lambda v: np.sqrt(np.maximum(v, 0.0)))

    def op_RSQRT(self, op):
        x_i = op.inputs[0]
        xs, xzp = self.scalar_q(x_i)
        if ((self.get(x_i) - xzp) <= 0).any():
            raise Unsupported("rsqrt of a non-positive value (the reference kernel aborts)")
        self.float_unary(op, lambda v: 1.0 / np.sqrt(v))

    def op_GELU(self, op):
        from math import erf, sqrt, pi
        approx = bool(op.options[1].get("Approximate", False)) if op.options else False
        if approx:
            fn = lambda v: 0.5 * v * (1.0 + np.tanh(sqrt(2.0 / pi) * (v + 0.044715 * v ** 3)))  # noqa: E731
        else:
            fn = np.vectorize(lambda v: 0.5 * v * (1.0 + erf(v / sqrt(2.0))))
        self.float_unary(op, fn)

    def op_SQUARED_DIFFERENCE(self, op):
        """integer reference kernel (int8): operands shifted left by 7, rescaled to twice the larger input scale, difference squared,
        rescaled to the output"""
        a_i, b_i, y_i = op.inputs[0], op.inputs[1], op.outputs[0]
        if self.m.tensors[a_i].type != "INT8":
            raise Unsupported("squared difference " + self.m.tensors[a_i].type)
        as_, azp = self.scalar_q(a_i)
        bs, bzp = self.scalar_q(b_i)
        ys, yzp = self.scalar_q(y_i)
        left = 7
        twice_max = 2.0 * max(float(as_), float(bs))
        m1, s1 = quantize_multiplier(float(as_) / twice_max)
        m2, s2 = quantize_multiplier(float(bs) / twice_max)
        mo, so = quantize_multiplier((twice_max * twice_max) / ((1 << (left * 2)) * float(ys)))
        x1 = mbqm((self.get(a_i) - azp) * (1 << left), m1, s1)
        x2 = mbqm((self.get(b_i) - bzp) * (1 << left), m2, s2)
        d = x1 - x2
        y = mbqm(d * d, mo, so) + yzp
        self.put(y_i, y, 0, [a_i, b_i])

    def op_ARG_MAX(self, op):
        x = self.get(op.inputs[0])
        ax = int(np.atleast_1d(self.get(op.inputs[1]))[0])
        self.put(op.outputs[0], np.argmax(x, axis=ax).astype(np.int64), 0, [op.inputs[0]], mode="move")

    def op_LEAKY_RELU(self, op):
        alpha = float(np.float32(op.options[1].get("Alpha", 0.0)))
        self.float_unary(op, lambda v: np.where(v >= 0, v, v * alpha))

    def op_PRELU(self, op):
        x_i, a_i, y_i = op.inputs[0], op.inputs[1], op.outputs[0]
        xs, xzp = self.scalar_q(x_i)
        as_, azp = self.scalar_q(a_i)
        ys, yzp = self.scalar_q(y_i)
        alpha = (self.get(a_i) - azp).astype(np.float64) * as_
        v = (self.get(x_i) - xzp).astype(np.float64) * xs
        real = np.where(v >= 0, v, v * alpha)
        y = np.where(real >= 0, np.floor(real / ys + 0.5), -np.floor(-real / ys + 0.5)) + yzp
        # lowered to min / mul / relu / add with two intermediate roundings: a documented approximation of its own
        self.put(y_i, y.astype(np.int64), 2, [x_i])

    def op_ABS(self, op):
        x_i, y_i = op.inputs[0], op.outputs[0]
        xs, xzp = self.scalar_q(x_i)
        ys, yzp = self.scalar_q(y_i)
        if abs(xs - ys) > 1e-15:
            raise Unsupported("abs with rescale")
        self.put(y_i, np.abs(self.get(x_i) - xzp) + yzp, 0, [x_i])

    def op_SOFTMAX(self, op):
        x_i, y_i = op.inputs[0], op.outputs[0]
        xs, xzp = self.scalar_q(x_i)
        ys, yzp = self.scalar_q(y_i)
        beta = float(np.float32(op.options[1].get("Beta", 1.0)))
        v = (self.get(x_i) - xzp).astype(np.float64) * xs * beta
        v = v - v.max(axis=-1, keepdims=True)
        e = np.exp(v)
        p = e / e.sum(axis=-1, keepdims=True)
        self.put(y_i, (np.floor(p / ys + 0.5) + yzp).astype(np.int64), 1, [x_i])

    def op_MEAN(self, op):
        x_i, y_i = op.inputs[0], op.outputs[0]
        axes = tuple(int(a) for a in np.atleast_1d(self.get(op.inputs[1])))
        xs, xzp = self.scalar_q(x_i)
        ys, yzp = self.scalar_q(y_i)
        keep = bool(op.options[1].get("KeepDims", False)) if op.options else False
        real = ((self.get(x_i) - xzp).astype(np.float64) * xs).mean(axis=axes, keepdims=keep)
        y = np.where(real >= 0, np.floor(real / ys + 0.5), -np.floor(-real / ys + 0.5)) + yzp
        self.put(y_i, y.astype(np.int64), 1, [x_i])

    # ---------------------------------------------------------------- memory-only / shape
    def op_RESHAPE(self, op):
        self.put(op.outputs[0], self.get(op.inputs[0]).reshape(self.m.tensors[op.outputs[0]].shape), 0, [op.inputs[0]], mode="move")

    op_SQUEEZE = op_RESHAPE
    op_EXPAND_DIMS = op_RESHAPE

    def op_CONCATENATION(self, op):
        ax = op.options[1]["Axis"]
        y_i = op.outputs[0]
        yt = self.m.tensors[y_i]
        parts = []
        approx = 0
        for i in op.inputs:
            if self.q(i) == self.q(y_i):
                parts.append(self.get(i))
            elif yt.type == "UINT8":
                # reference ConcatenationWithScaling: float rescale, round half away from zero
                xs, xzp = self.scalar_q(i)
                ys, yzp = self.scalar_q(y_i)
                inv = np.float32(1.0) / np.float32(ys)
                sc = np.float32(xs) * inv
                bias = np.float32(-xzp) * sc
                v = self.get(i).astype(np.float32) * sc + bias
                r = np.where(v >= 0, np.floor(v + np.float32(0.5)), -np.floor(-v + np.float32(0.5))).astype(np.int64) + yzp
                parts.append(r)
                approx = 1
            else:
                raise Unsupported("int8 concatenation with differing quantisation has no reference semantics")
        self.put(y_i, np.concatenate(parts, axis=ax), approx, list(op.inputs), mode="move")

    def op_PAD(self, op):
        x_i = op.inputs[0]
        pads = self.get(op.inputs[1]).reshape(-1, 2)
        _, zp = self.scalar_q(x_i)
        self.put(op.outputs[0], np.pad(self.get(x_i), [(int(a), int(b)) for a, b in pads], constant_values=zp), 0, [x_i], mode="move")

    def op_SPLIT(self, op):
        ax = int(np.atleast_1d(self.get(op.inputs[0]))[0])
        x_i = op.inputs[1]
        parts = np.split(self.get(x_i), len(op.outputs), axis=ax)
        for o_i, p in zip(op.outputs, parts):
            self.put(o_i, p, 0, [x_i], mode="move")

    LSTM_TOL = int(os.environ.get("VERIF_LSTM_TOL", 2))

    def op_UNIDIRECTIONAL_SEQUENCE_LSTM(self, op):
        """Fully integer LSTM (8x8->16) of the reference, emulated in float64 with a rounding at each of the kernel's own
        quantisation points (gates Q3.12, activations Q0.15, cell state 2^-k, hidden state int8).  The kernel's fixed-point tanh /
        logistic are replaced by the exact functions (their error is a few 2^-15), so the result is comparable within LSTM_TOL
        steps of the int8 output, not bit-exact."""
        o = op.options[1] if op.options else {}
        ins = list(op.inputs) + [-1] * (24 - len(op.inputs))
        if len(op.inputs) != 24 or len(getattr(op, "intermediates", []) or []) != 5:
            raise Unsupported("LSTM operand count")
        if any(ins[i] >= 0 for i in (9, 10, 11, 16, 17, 20, 21, 22, 23)) or any(ins[i] < 0 for i in range(1, 9)):
            raise Unsupported("LSTM with CIFG / peephole / projection / layer normalisation")
        x_i = ins[0]
        xt = self.m.tensors[x_i]
        if xt.type != "INT8" or len(xt.shape) != 3:
            raise Unsupported("LSTM activation type")
        tm = bool(o.get("TimeMajor", False))
        x = self.get(x_i).astype(np.float64)
        if not tm:
            x = x.transpose(1, 0, 2)
        n_time, n_batch, n_in = x.shape
        xs, xzp = self.scalar_q(x_i)
        hs, hzp = self.scalar_q(ins[18])
        cs, _ = self.scalar_q(ins[19])
        hid = self.m.tensors[op.intermediates[4]]
        hid_s, hid_zp = float(np.float32(hid.scale[0])), int(hid.zp[0]) if hid.zp else 0
        ys, yzp = self.scalar_q(op.outputs[0])
        n_cell = self.m.tensors[ins[19]].shape[-1]
        W, R, B = [], [], []
        for g in range(4):
            w_i, r_i, b_i = ins[1 + g], ins[5 + g], ins[12 + g]
            ws, wzp = self.scalar_q(w_i)
            rs_, rzp = self.scalar_q(r_i)
            W.append(((self.get(w_i).astype(np.float64) - wzp).reshape(n_cell, n_in), ws))
            R.append(((self.get(r_i).astype(np.float64) - rzp).reshape(n_cell, n_cell), rs_))
            B.append(self.get(b_i).astype(np.float64) if b_i >= 0 else np.zeros(n_cell))

        def rnd(v):
            return np.where(v >= 0, np.floor(v + 0.5), -np.floor(-v + 0.5))

        def sat16(v):
            return np.clip(v, -32768, 32767)

        h = np.full((n_batch, n_cell), float(hzp))  # zeroed state bytes... the runtime zeroes the tensors: raw value 0
        h[:] = 0.0
        c = np.zeros((n_batch, n_cell))
        cell_clip = float(o.get("CellClip", 0.0))
        qclip = min(32767.0, max(0.0, np.floor(cell_clip / cs))) if cell_clip > 0 else 0.0
        ys_out = np.zeros((n_time, n_batch, n_cell))
        for t in range(n_time):
            xt_ = x[t] - xzp
            gates = []
            for g in range(4):
                (w, ws), (r, rs_) = W[g], R[g]
                a_in = sat16(rnd((xt_ @ w.T + B[g]) * (xs * ws * 4096.0)))
                a_rec = rnd(((h - hzp) @ r.T) * (hs * rs_ * 4096.0))
                pre = sat16(a_in + a_rec) / 4096.0
                if g == 2:
                    gates.append(np.clip(rnd(np.tanh(pre) * 32768.0), -32768, 32767))
                else:
                    gates.append(np.clip(rnd(32768.0 / (1.0 + np.exp(-pre))), 0, 32767))
            ig, fg, cg, og = gates
            c = sat16(rnd(fg * c / 32768.0) + rnd(ig * cg * (2.0 ** -30) / cs))
            if qclip > 0:
                c = np.clip(c, -qclip, qclip)
            th = np.clip(rnd(np.tanh(c * cs) * 32768.0), -32768, 32767)
            h = np.clip(rnd(og * th * (2.0 ** -30) / hid_s) + hid_zp, -128, 127)
            ys_out[t] = h
        if abs(hid_s - hs) > 1e-12 or hid_zp != hzp or abs(ys - hs) > 1e-12 or yzp != hzp:
            raise Unsupported("LSTM hidden / output state / output quantisation differ")
        if not tm:
            ys_out = ys_out.transpose(1, 0, 2)
        self.put(op.outputs[0], ys_out.astype(np.int64), self.LSTM_TOL, [x_i])

    def op_SPLIT_V(self, op):
        x_i = op.inputs[0]
        x = self.get(x_i)
        ax = int(np.atleast_1d(self.get(op.inputs[2]))[0])
        sizes = [int(v) for v in np.atleast_1d(self.get(op.inputs[1]))]
        if sizes.count(-1) == 1:
            sizes[sizes.index(-1)] = x.shape[ax] - (sum(sizes) + 1)
        parts = np.split(x, np.cumsum(sizes)[:-1], axis=ax)
        for o_i, p in zip(op.outputs, parts):
            self.put(o_i, p, 0, [x_i], mode="move")

    def op_SHAPE(self, op):
        self.put(op.outputs[0], np.array(self.m.tensors[op.inputs[0]].shape, np.int64), 0, [])

    def op_STRIDED_SLICE(self, op):
        x_i = op.inputs[0]
        o = op.options[1] if op.options else {}
        if any(o.get(k, 0) for k in ("BeginMask", "EndMask", "EllipsisMask", "NewAxisMask", "ShrinkAxisMask")):
            raise Unsupported("strided slice masks")
        b, e, s = (self.get(i) for i in op.inputs[1:4])
        sl = tuple(slice(int(bb), int(ee), int(ss)) for bb, ee, ss in zip(b, e, s))
        self.put(op.outputs[0], self.get(x_i)[sl], 0, [x_i], mode="move")

    def op_SLICE(self, op):
        x_i = op.inputs[0]
        b, z = self.get(op.inputs[1]), self.get(op.inputs[2])
        sl = tuple(slice(int(bb), int(bb) + int(zz)) for bb, zz in zip(b, z))
        self.put(op.outputs[0], self.get(x_i)[sl], 0, [x_i], mode="move")

    def op_TRANSPOSE(self, op):
        x_i = op.inputs[0]
        self.put(op.outputs[0], np.transpose(self.get(x_i), [int(p) for p in self.get(op.inputs[1])]), 0, [x_i], mode="move")

    def op_GATHER(self, op):
        x_i = op.inputs[0]
        idx = self.get(op.inputs[1]).astype(np.int64)
        self.put(op.outputs[0], np.take(self.get(x_i), idx, axis=op.options[1]["Axis"]), 0, [x_i], mode="move")

    def op_PACK(self, op):
        self.put(op.outputs[0], np.stack([self.get(i) for i in op.inputs], axis=op.options[1]["Axis"]), 0, list(op.inputs), mode="move")

    def op_UNPACK(self, op):
        x = self.get(op.inputs[0])
        ax = op.options[1]["Axis"]
        for k, o_i in enumerate(op.outputs):
            self.put(o_i, np.take(x, k, axis=ax), 0, [op.inputs[0]], mode="move")

    # ---------------------------------------------------------------- resize (approximate class)
    def resize(self, op, bilinear):
        x_i, y_i = op.inputs[0], op.outputs[0]
        x = self.get(x_i)
        o = op.options[1] if op.options else {}
        ac, hp = bool(o.get("AlignCorners", False)), bool(o.get("HalfPixelCenters", False))
        N, H, W, C = x.shape
        OH, OW = self.m.tensors[y_i].shape[1:3]

        def scale(i, o_):
            return (i - 1) / (o_ - 1) if (ac and o_ > 1) else i / o_

        hs, ws = scale(H, OH), scale(W, OW)
        if not bilinear:
            def idx(o_, s, n):
                v = (np.arange(o_) + (0.5 if hp else 0.0)) * s
                r = np.floor(v + 0.5) if ac else np.floor(v)
                return np.clip(r.astype(np.int64), 0, n - 1)

            y = x[:, idx(OH, hs, H)][:, :, idx(OW, ws, W)]
            self.put(y_i, y, 1, [x_i], mode="move")
            return

        def coords(o_, s, n):
            v = (np.arange(o_) + 0.5) * s - 0.5 if hp else np.arange(o_) * s
            lo = np.floor(v)
            f = v - lo
            l0 = np.clip(lo.astype(np.int64), 0, n - 1)
            l1 = np.clip(lo.astype(np.int64) + 1, 0, n - 1)
            return l0, l1, f

        y0, y1, fy = coords(OH, hs, H)
        x0, x1, fx = coords(OW, ws, W)
        xf = x.astype(np.float64)
        top = xf[:, y0][:, :, x0] * (1 - fx)[None, None, :, None] + xf[:, y0][:, :, x1] * fx[None, None, :, None]
        bot = xf[:, y1][:, :, x0] * (1 - fx)[None, None, :, None] + xf[:, y1][:, :, x1] * fx[None, None, :, None]
        r = top * (1 - fy)[None, :, None, None] + bot * fy[None, :, None, None]
        self.put(y_i, np.where(r >= 0, np.floor(r + 0.5), -np.floor(-r + 0.5)).astype(np.int64), 1, [x_i], mode="avg")

    def op_RESIZE_BILINEAR(self, op):
        self.resize(op, True)

    def op_RESIZE_NEAREST_NEIGHBOR(self, op):
        self.resize(op, False)

    def op_TRANSPOSE_CONV(self, op):
        o = op.options[1]
        w_i, x_i = op.inputs[1], op.inputs[2]
        b_i = op.inputs[3] if len(op.inputs) > 3 else -1
        x, w = self.get(x_i), self.get(w_i)
        xs, xzp = self.scalar_q(x_i)
        ys, yzp = self.scalar_q(op.outputs[0])
        wt = self.m.tensors[w_i]
        xtype = self.m.tensors[x_i].type
        if xtype not in ("INT8", "UINT8", "INT16"):
            raise Unsupported("transpose conv dtype")
        wide = xtype == "INT16" and not (b_i >= 0 and self.m.tensors[b_i].type != "INT64")
        N, H, W, C = x.shape
        oc, kh, kw, _ = w.shape
        sh, sw = o["StrideH"], o["StrideW"]
        _, OH, OW, _ = self.m.tensors[op.outputs[0]].shape
        if o["Padding"] == 0:
            pt = max(0, ((H - 1) * sh + kh - OH)) // 2
            pl = max(0, ((W - 1) * sw + kw - OW)) // 2
        else:
            pt = pl = 0
        acc = np.zeros((N, OH + kh + sh * 2, OW + kw + sw * 2, oc), np.int64)
        xv = x - xzp
        wv = w - (wt.zp[0] if wt.zp else 0)
        full = np.zeros((N, (H - 1) * sh + kh, (W - 1) * sw + kw, oc), np.int64)
        for ky in range(kh):
            for kx in range(kw):
                full[:, ky:ky + (H - 1) * sh + 1:sh, kx:kx + (W - 1) * sw + 1:sw, :] += np.tensordot(xv, wv[:, ky, kx, :], axes=([3], [1]))
        acc = full[:, pt:pt + OH, pl:pl + OW, :]
        if acc.shape[1] != OH or acc.shape[2] != OW:
            raise Unsupported("transpose conv geometry")
        if b_i >= 0:
            acc = acc + self.get(b_i).reshape(1, 1, 1, -1)
        wscales = [float(np.float32(s)) for s in wt.scale]
        if xtype == "UINT8":
            reals = [float(np.float64(np.float32(np.float32(xs) * np.float32(s))) / np.float64(np.float32(ys))) for s in wscales]
        else:
            reals = [float(np.float64(np.float32(xs)) * np.float64(np.float32(s)) / np.float64(np.float32(ys))) for s in wscales]
        if len(reals) == 1:
            reals = reals * oc
        ms = [quantize_multiplier(r) for r in reals]
        ma = np.array([a for a, _ in ms], np.int64).reshape(1, 1, 1, -1)
        sa = np.array([b for _, b in ms], np.int64).reshape(1, 1, 1, -1)
        y = (mbqm64(acc, ma, sa) if wide else mbqm(acc, ma, sa)) + yzp
        self.put(op.outputs[0], y, 0, [x_i])

    # ---------------------------------------------------------------- CPU-only operators of the workload
    def op_DEQUANTIZE(self, op):
        x_i = op.inputs[0]
        s, zp = self.scalar_q(x_i)
        self.put(op.outputs[0], ((self.get(x_i) - zp).astype(np.float32) * np.float32(s)).astype(np.float64), 0, [x_i])

    def op_FLOOR(self, op):
        self.put(op.outputs[0], np.floor(self.get(op.inputs[0])), 0, [op.inputs[0]])

    def op_CEIL(self, op):
        self.put(op.outputs[0], np.ceil(self.get(op.inputs[0])), 0, [op.inputs[0]])

    def op_NEG(self, op):
        self.put(op.outputs[0], -self.get(op.inputs[0]), 0, [op.inputs[0]])

    def op_CUSTOM(self, op):
        # the third-party operator of the workload is given a fixed, arbitrary meaning by the runtime peer: out = in XOR 0x55 (bytewise)
        x = self.get(op.inputs[0])
        t = self.m.tensors[op.inputs[0]]
        if t.type not in ("INT8", "UINT8"):
            raise Unsupported("custom on " + t.type)
        y = (x.astype(np.int64) & 0xFF) ^ 0x55
        if t.type == "INT8":
            y = np.where(y >= 128, y - 256, y)
        self.put(op.outputs[0], y, 0, [op.inputs[0]])


def run(model, inputs):
    it = Interp(model)
    vals = it.run(inputs)
    return vals, it.tol
