"""Human-readable dumps for triage."""
from .npu.regs import KernelOp, DmaOp, Wait


def fm_str(f):
    return (f"r{f.region}:{[hex(b) for b in f.base]} s(y={f.sy},x={f.sx},c={f.sc}) tiles(w0={f.w0},h0={f.h0},h1={f.h1}) "
            f"{'NHCWB16' if f.nhcwb16 else 'NHWC'} {f.bits}b zp={f.zp}")


def dump_program(prog):
    out = []
    for it in prog:
        if isinstance(it, KernelOp):
            out.append(f"{it.idx:3d} {it.kind}{'/' + it.sub if it.sub else ''} ofm {it.oh}x{it.ow}x{it.oc} blk {it.bh}x{it.bw}x{it.bc} "
                       f"bd={it.blockdep} k={it.kh}x{it.kw} s={it.sy}x{it.sx} pad(t{it.pt} l{it.pl} b{it.pb} r{it.pr}) up={it.up} "
                       f"ic={it.ic} ih/iw={it.ih}x{it.iw} act={it.act} lut={it.lut_index}")
            out.append(f"      IFM  {fm_str(it.ifm)}")
            if it.ifm2 is not None:
                out.append(f"      IFM2 {fm_str(it.ifm2)} bcast={it.bcast:#x} scalar={it.scalar}")
            out.append(f"      OFM  {fm_str(it.ofm)}")
            for w in it.weights:
                out.append(f"      W r{w[0]} {w[1]:#x}+{w[2]}")
            for w in it.scales:
                out.append(f"      S r{w[0]} {w[1]:#x}+{w[2]}")
        elif isinstance(it, DmaOp):
            out.append(f"{it.idx:3d} DMA r{it.src[0]:#x}:{it.src[1]:#x} -> r{it.dst[0]:#x}:{it.dst[1]:#x} len {it.len}")
        else:
            out.append(f"{it.idx:3d} {it.kind} {it.n}")
    return "\n".join(out)


def dump_model(m, offsets=None):
    out = []
    for t in m.tensors:
        o = offsets[t.idx] if offsets else None
        out.append(f"T{t.idx:3d} {t.name:32s} {t.shape} {t.type} buf={'y' if t.data is not None else 'n'} off={o} bytes={t.nbytes()} q={t.scale[:2] if t.scale else None}/{t.zp[:2] if t.zp else None}")
    for o in m.ops:
        out.append(f"OP{o.idx:3d} {o.name} in={o.inputs} out={o.outputs}")
    out.append(f"inputs={m.inputs} outputs={m.outputs}")
    return "\n".join(out)
