"""Schema-table driven flatbuffer reader (own vtable walker, bounds checked) and writer (flatbuffers.Builder with raw
slot numbers).  Independent of ethosu.vela.tflite and of tflite_reader/writer: this is the "plain flatbuffer parser"."""
import struct

import numpy as np

from .tflschema import TABLES, ENUMS

SCALAR = {
    "i8": ("<b", 1), "u8": ("<B", 1), "bool": ("<B", 1), "i16": ("<h", 2), "u16": ("<H", 2), "i32": ("<i", 4),
    "u32": ("<I", 4), "i64": ("<q", 8), "u64": ("<Q", 8), "f32": ("<f", 4), "f64": ("<d", 8),
}
NPTYPE = {"i8": np.int8, "u8": np.uint8, "bool": np.uint8, "i16": np.int16, "u16": np.uint16, "i32": np.int32,
          "u32": np.uint32, "i64": np.int64, "u64": np.uint64, "f32": np.float32, "f64": np.float64}

SLOTFN = {"i8": "Int8", "u8": "Uint8", "bool": "Bool", "i16": "Int16", "u16": "Uint16", "i32": "Int32", "u32": "Uint32",
          "i64": "Int64", "u64": "Uint64", "f32": "Float32", "f64": "Float64"}
OPTIONS_BY_INDEX = {v: k for k, v in ENUMS["BuiltinOptions"].items()}
BUILTIN_BY_CODE = {v: k for k, v in ENUMS["BuiltinOperator"].items()}
UNION_TYPES = {
    ("Operator", "BuiltinOptions"): ("BuiltinOptionsType", OPTIONS_BY_INDEX),
    ("QuantizationParameters", "Details"): ("DetailsType", {1: "CustomQuantization"}),
}


class ParseError(Exception):
    pass


class Reader:
    def __init__(self, buf):
        self.b = bytes(buf)
        self.n = len(self.b)

    def _chk(self, pos, size):
        if pos < 0 or pos + size > self.n:
            raise ParseError(f"access [{pos},{pos + size}) outside buffer of {self.n} bytes")

    def u(self, fmt, pos):
        size = struct.calcsize(fmt)
        self._chk(pos, size)
        return struct.unpack_from(fmt, self.b, pos)[0]

    def indirect(self, pos):
        return pos + self.u("<I", pos)

    def root(self, tname="Model"):
        if self.n < 8:
            raise ParseError("buffer too small")
        return self.table(self.indirect(0), tname)

    def vector(self, pos, kind):
        n = self.u("<I", pos)
        pos += 4
        if kind in SCALAR:
            fmt, size = SCALAR[kind]
            self._chk(pos, n * size)
            return np.frombuffer(self.b, dtype=NPTYPE[kind], count=n, offset=pos)
        self._chk(pos, n * 4)
        out = []
        for i in range(n):
            p = self.indirect(pos + 4 * i)
            if kind == "str":
                out.append(self.string(p))
            else:
                out.append(self.table(p, kind[2:]))
        return out

    def string(self, pos):
        n = self.u("<I", pos)
        self._chk(pos + 4, n)
        return self.b[pos + 4:pos + 4 + n].decode("utf-8", "replace")

    def table(self, pos, tname):
        soff = self.u("<i", pos)
        vt = pos - soff
        vtsize = self.u("<H", vt)
        self.u("<H", vt + 2)
        self._chk(vt, vtsize)
        res = {}
        fields = TABLES.get(tname, [])
        offs = {}
        for slot, fname, kind, default in fields:
            o = 4 + 2 * slot
            offs[fname] = self.u("<H", vt + o) if o + 2 <= vtsize else 0
        for slot, fname, kind, default in fields:
            off = offs[fname]
            if kind in SCALAR:
                v = self.u(SCALAR[kind][0], pos + off) if off else default
                res[fname] = bool(v) if kind == "bool" else v
            elif not off:
                res[fname] = None
            elif kind == "str":
                res[fname] = self.string(self.indirect(pos + off))
            elif kind.startswith("["):
                res[fname] = self.vector(self.indirect(pos + off), kind[1:-1])
            elif kind.startswith("T:"):
                res[fname] = self.table(self.indirect(pos + off), kind[2:])
            elif kind == "union":
                ut = UNION_TYPES.get((tname, fname))
                if ut is None:
                    res[fname] = None
                else:
                    tn = ut[1].get(res.get(ut[0]) if ut[0] in res else self._peek(pos, vt, vtsize, tname, ut[0]))
                    res[fname] = (tn, self.table(self.indirect(pos + off), tn)) if tn else None
        return res

    def _peek(self, pos, vt, vtsize, tname, fname):
        for slot, fn, kind, default in TABLES[tname]:
            if fn == fname:
                o = 4 + 2 * slot
                off = self.u("<H", vt + o) if o + 2 <= vtsize else 0
                return self.u(SCALAR[kind][0], pos + off) if off else default


def parse_model(buf):
    """-> nested dict following TABLES['Model'].  Raises ParseError on any out-of-bounds reference."""
    r = Reader(buf)
    if r.n >= 8 and r.b[4:8] != b"TFL3":
        raise ParseError("file identifier is not TFL3")
    try:
        return r.root("Model")
    except struct.error as e:  # pragma: no cover
        raise ParseError(str(e))


# ---------------------------------------------------------------------------------------------------------------
class Writer:
    def __init__(self):
        import flatbuffers

        self.fb = flatbuffers
        self.b = flatbuffers.Builder(4096)

    def vector(self, kind, vals, align=None):
        b = self.b
        if kind in SCALAR:
            size = SCALAR[kind][1]
            arr = np.ascontiguousarray(np.asarray(vals, dtype=NPTYPE[kind])).reshape(-1)
            n = len(arr)
            b.StartVector(size, n, align or size)
            raw = arr.tobytes()
            b.head = b.head - len(raw)
            b.Bytes[b.head:b.head + len(raw)] = raw
            return b.EndVector()
        offs = [self.string(v) if kind == "str" else self.table(kind[2:], v) for v in vals]
        b.StartVector(4, len(offs), 4)
        for o in reversed(offs):
            b.PrependUOffsetTRelative(o)
        return b.EndVector()

    def string(self, s):
        return self.b.CreateString(s)

    def table(self, tname, d):
        b = self.b
        fields = TABLES.get(tname, [])
        pre = {}
        for slot, fname, kind, default in fields:
            v = d.get(fname)
            if v is None or kind in SCALAR:
                continue
            if kind == "str":
                pre[fname] = self.string(v)
            elif kind.startswith("["):
                align = 16 if (tname, fname) == ("Buffer", "Data") else None
                pre[fname] = self.vector(kind[1:-1], v, align)
            elif kind.startswith("T:"):
                pre[fname] = self.table(kind[2:], v)
            elif kind == "union":
                pre[fname] = self.table(v[0], v[1])
        b.StartObject(max([f[0] for f in fields], default=-1) + 1)
        for slot, fname, kind, default in fields:
            v = d.get(fname)
            if kind in SCALAR:
                if v is None:
                    continue
                getattr(b, "Prepend" + SLOTFN[kind] + "Slot")(slot, bool(v) if kind == "bool" else v, default)
            elif fname in pre:
                b.PrependUOffsetTRelativeSlot(slot, pre[fname], 0)
        return b.EndObject()


def build_model(model):
    w = Writer()
    root = w.table("Model", model)
    w.b.Finish(root, b"TFL3")
    return bytes(w.b.Output())
