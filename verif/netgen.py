"""Seeded workload generator: recipes (explicit JSON) -> .tflite bytes via verif.fbs (never via the repo's writer).

A recipe is explicit content (not a generator seed), so replay files survive generator changes:
  {"name":..., "inputs":[{"shape","dtype","q":[scale,zp]}], "layers":[{"op":..., "in":[value ids], ...}], "outputs":[ids]}
Value ids: inputs first, then one id per layer output in order.
"""
import os
import math

import numpy as np

from .tflschema import ENUMS

BO = ENUMS["BuiltinOperator"]
BOPT = ENUMS["BuiltinOptions"]
TT = ENUMS["TensorType"]
ACT = {"NONE": 0, "RELU": 1, "RELU_N1_TO_1": 2, "RELU6": 3}
NPDT = {"int8": np.int8, "uint8": np.uint8, "int16": np.int16, "int32": np.int32, "int64": np.int64, "float32": np.float32}
TTYPE = {"int8": TT["INT8"], "uint8": TT["UINT8"], "int16": TT["INT16"], "int32": TT["INT32"], "int64": TT["INT64"],
         "float32": TT["FLOAT32"]}
DTRANGE = {"int8": (-128, 127), "uint8": (0, 255), "int16": (-32768, 32767)}


def f32(x):
    return float(np.float32(x))


def conv_out(i, k, s, d, pad):
    ke = (k - 1) * d + 1
    if pad == "SAME":
        return -(-i // s)
    return (i - ke) // s + 1


# ----------------------------------------------------------------------------------------------- building
class Built:
    """Result of materialising a recipe: model dict (fbs), tensor table bookkeeping."""


def _weights(rs, shape, style, dtype):
    lo, hi = (-127, 127) if dtype == "int8" else (0, 255)
    if style == "small":
        w = rs.randint(-3, 4, size=shape)
    elif style == "sparse":
        w = rs.randint(lo, hi + 1, size=shape) * (rs.rand(*shape) < 0.15)
    elif style == "const":
        w = np.full(shape, rs.randint(1, 5))
    elif style == "extreme":
        w = rs.choice([lo, hi, 0, 1, -1 if lo < 0 else 2], size=shape)
    else:
        w = rs.randint(lo, hi + 1, size=shape)
    if dtype == "uint8":
        w = np.clip(w + (128 if style in ("small", "sparse", "const") else 0), 0, 255)
    return w.astype(NPDT[dtype])


def build(recipe):
    """-> (tflite bytes, info) where info['values'][i] = dict(tensor index, shape, dtype, q)."""
    from . import fbs

    tensors, buffers, operators, opcodes = [], [None], [], []
    names_used = {}
    dup_names = recipe.get("dup_names", False)

    def add_buffer(arr):
        buffers.append(np.ascontiguousarray(np.atleast_1d(arr)).view(np.uint8).reshape(-1))
        return len(buffers) - 1

    def add_tensor(name, shape, dtype, q=None, data=None, qdim=0, shape_sig=None, variable=False):
        if not dup_names:
            k = names_used.get(name, 0)
            names_used[name] = k + 1
            if k:
                name = f"{name}_{k}"
        t = {"Shape": [int(s) for s in shape], "Type": TTYPE[dtype], "Buffer": add_buffer(data) if data is not None else 0,
             "Name": name}
        if q is not None:
            if len(q) == 3:  # (scales, zero points, quantised dimension): per-axis quantised tensor
                qdim = q[2]
            sc, zp = q[0], q[1]
            sc = np.atleast_1d(np.asarray(sc, dtype=np.float32))
            zp = np.atleast_1d(np.asarray(zp, dtype=np.int64))
            t["Quantization"] = {"Scale": sc, "ZeroPoint": zp, "QuantizedDimension": int(qdim)}
            if recipe.get("minmax") and data is None and dtype in DTRANGE and len(sc) == 1:
                # the optional real-valued range of the tensor (older converters / quantisation-aware training write it)
                lo_, hi_ = DTRANGE[dtype]
                t["Quantization"]["Min"] = np.array([float(sc[0]) * (lo_ - int(zp[0]))], np.float32)
                t["Quantization"]["Max"] = np.array([float(sc[0]) * (hi_ - int(zp[0]))], np.float32)
        if shape_sig is not None:
            t["ShapeSignature"] = shape_sig
        if variable:
            t["IsVariable"] = True
        tensors.append(t)
        return len(tensors) - 1

    def opcode(code, version=1, custom=None):
        key = (code, version, custom)
        if key not in opcodes:
            opcodes.append(key)
        return opcodes.index(key)

    def add_op(code, ins, outs, opt=None, version=1, custom=None, custom_options=None, intermediates=None):
        o = {"OpcodeIndex": opcode(code, version, custom), "Inputs": [int(i) for i in ins], "Outputs": [int(i) for i in outs]}
        if intermediates is not None:
            o["Intermediates"] = [int(i) for i in intermediates]
        if opt is not None:
            o["BuiltinOptionsType"] = BOPT[opt[0]]
            o["BuiltinOptions"] = opt
        if custom_options is not None:
            o["CustomOptions"] = np.frombuffer(bytes(custom_options), dtype=np.uint8)
        operators.append(o)

    values = []  # dict(t=tensor idx, shape, dtype, q)

    def new_value(name, shape, dtype, q):
        t = add_tensor(name, shape, dtype, q)
        values.append(dict(t=t, shape=list(shape), dtype=dtype, q=q))
        return values[-1]

    for i, inp in enumerate(recipe["inputs"]):
        new_value(inp.get("name", f"input{i}"), inp["shape"], inp["dtype"], tuple(inp["q"]) if inp.get("q") else None)

    for li, L in enumerate(recipe["layers"]):
        op = L["op"]
        ins = [values[v] for v in L["in"]]
        x = ins[0] if ins else None
        nm = L.get("name", f"L{li}_{op.lower()}")
        rs = np.random.RandomState(L.get("seed", li) & 0x7FFFFFFF)
        oq = tuple(L["q"]) if L.get("q") else (x["q"] if x else None)
        act = ACT[L.get("act", "NONE")]
        if op in ("CONV_2D", "DEPTHWISE_CONV_2D", "TRANSPOSE_CONV"):
            kh, kw = L["k"]
            sh, sw = L.get("stride", [1, 1])
            dh, dw = L.get("dil", [1, 1])
            pad = L.get("pad", "SAME")
            N, H, W, C = x["shape"]
            if pad == "VALID" and op != "TRANSPOSE_CONV" and ((kh - 1) * dh + 1 > H or (kw - 1) * dw + 1 > W):
                raise ValueError("conv window larger than input")
            wdt = L.get("wdtype", "uint8" if x["dtype"] == "uint8" else "int8")
            if op == "CONV_2D":
                oc = L["oc"]
                groups = L.get("groups", 1)
                if C % groups or oc % groups:
                    raise ValueError("convolution groups do not divide the channels")
                wshape = [oc, kh, kw, C // groups]  # grouped convolution: the filter covers C / groups input channels
                qdim = 0
            elif op == "DEPTHWISE_CONV_2D":
                mult = L.get("mult", 1)
                oc = C * mult
                wshape = [1, kh, kw, oc]
                qdim = 3
            else:
                oc = L["oc"]
                wshape = [oc, kh, kw, C]
                qdim = 0
            wsc = L.get("wscale", 0.01)
            if L.get("per_axis", False) and wdt == "int8":
                wscales = [f32(wsc * (1 + 0.37 * ((j * 7) % 5))) for j in range(oc)]
                wzps = [0] * oc
            else:
                wscales = [f32(wsc)]
                wzps = [0 if wdt == "int8" else L.get("wzp", 128)]
            wdata = _weights(rs, wshape, L.get("wstyle", "uniform"), wdt)
            if L.get("w_in") is not None:
                wt = values[L["w_in"]]["t"]  # dynamic (non-constant) weights: a network input
            elif L.get("shared_w") is not None and L["shared_w"] in shared:
                wt = shared[L["shared_w"]]
            else:
                wt = add_tensor(nm + "_w", wshape, wdt, (wscales, wzps), wdata, qdim if len(wscales) > 1 else 0)
                if L.get("shared_w") is not None:
                    shared[L["shared_w"]] = wt
            bias_t = -1
            if L.get("bias", True) and L.get("shared_b") is not None and ("b", L["shared_b"]) in shared:
                bias_t = shared[("b", L["shared_b"])]
            elif L.get("bias", True):
                bdt = "int64" if x["dtype"] == "int16" and L.get("bias64", True) else "int32"
                bmax = L.get("bmax", 2000)
                bdata = rs.randint(-bmax, bmax + 1, size=(oc,)).astype(NPDT[bdt])
                bsc = [f32(f32(x["q"][0]) * s) for s in wscales]
                bias_t = add_tensor(nm + "_b", [oc], bdt, (bsc, [0] * len(bsc)), bdata)
                if L.get("shared_b") is not None:
                    shared[("b", L["shared_b"])] = bias_t
            if op == "TRANSPOSE_CONV":
                OH = H * sh if pad == "SAME" else (H - 1) * sh + kh
                OW = W * sw if pad == "SAME" else (W - 1) * sw + kw
                oshape = [1, OH, OW, oc]
                osz = add_tensor(nm + "_oshape", [4], "int32", None, np.array(oshape, np.int32))
                y = new_value(nm, oshape, x["dtype"], oq)
                add_op(BO["TRANSPOSE_CONV"], [osz, wt, x["t"]] + ([bias_t] if bias_t >= 0 else []), [y["t"]],
                       ("TransposeConvOptions", {"Padding": 0 if pad == "SAME" else 1, "StrideW": sw, "StrideH": sh}), version=3)
            else:
                OH, OW = conv_out(H, kh, sh, dh, pad), conv_out(W, kw, sw, dw, pad)
                y = new_value(nm, [N, OH, OW, oc], L.get("odtype", x["dtype"]), oq)
                if op == "CONV_2D":
                    opt = ("Conv2DOptions", {"Padding": 0 if pad == "SAME" else 1, "StrideW": sw, "StrideH": sh,
                                             "FusedActivationFunction": act, "DilationWFactor": dw, "DilationHFactor": dh})
                else:
                    opt = ("DepthwiseConv2DOptions", {"Padding": 0 if pad == "SAME" else 1, "StrideW": sw, "StrideH": sh,
                                                      "DepthMultiplier": L.get("mult", 1), "FusedActivationFunction": act,
                                                      "DilationWFactor": dw, "DilationHFactor": dh})
                add_op(BO[op], [x["t"], wt] + ([bias_t] if bias_t >= 0 else []), [y["t"]], opt, version=3)
        elif op == "FULLY_CONNECTED":
            oc = L["oc"]
            if len(x["shape"]) < 2:
                raise ValueError("FC rank")
            n_in = int(np.prod(x["shape"][1:])) if L.get("flatten", True) else x["shape"][-1]
            wdt = "uint8" if x["dtype"] == "uint8" else "int8"
            if L.get("w_from") is not None:
                # dynamic weights: the output of another layer (such an operator stays on the CPU)
                wv = values[L["w_from"]]
                if list(wv["shape"]) != [oc, n_in] or wv["dtype"] != wdt:
                    raise ValueError("dynamic FC weights have the wrong shape / type")
                wt = wv["t"]
                wq = ([f32(wv["q"][0])], [int(wv["q"][1])])
            else:
                wdata = _weights(rs, [oc, n_in], L.get("wstyle", "uniform"), wdt)
                wq = ([f32(L.get("wscale", 0.01))], [0 if wdt == "int8" else L.get("wzp", 128)])
                wt = add_tensor(nm + "_w", [oc, n_in], wdt, wq, wdata)
            insl = [x["t"], wt]
            if L.get("bias", True):
                bdt = "int64" if x["dtype"] == "int16" else "int32"
                bdata = rs.randint(-2000, 2001, size=(oc,)).astype(NPDT[bdt])
                insl.append(add_tensor(nm + "_b", [oc], bdt, ([f32(f32(x["q"][0]) * wq[0][0])], [0]), bdata))
            else:
                insl.append(-1)
            batch = int(np.prod(x["shape"])) // n_in
            y = new_value(nm, [batch, oc], x["dtype"], oq)
            add_op(BO[op], insl, [y["t"]], ("FullyConnectedOptions", {"FusedActivationFunction": act, "KeepNumDims": bool(L.get("keep_dims", False))}), version=4)
        elif op in ("MAX_POOL_2D", "AVERAGE_POOL_2D"):
            kh, kw = L["k"]
            sh, sw = L.get("stride", [1, 1])
            pad = L.get("pad", "VALID")
            N, H, W, C = x["shape"]
            if pad == "VALID" and (kh > H or kw > W):
                raise ValueError("pool window larger than input")
            y = new_value(nm, [N, conv_out(H, kh, sh, 1, pad), conv_out(W, kw, sw, 1, pad), C], x["dtype"], oq)
            add_op(BO[op], [x["t"]], [y["t"]], ("Pool2DOptions", {"Padding": 0 if pad == "SAME" else 1, "StrideW": sw, "StrideH": sh,
                                                                   "FilterWidth": kw, "FilterHeight": kh,
                                                                   "FusedActivationFunction": act}), version=2)
        elif op in ("ADD", "SUB", "MUL", "MINIMUM", "MAXIMUM", "SQUARED_DIFFERENCE"):
            if len(ins) == 2:
                np.broadcast_shapes(tuple(ins[0]["shape"]), tuple(ins[1]["shape"]))
                b = ins[1]
                bt = b["t"]
                bshape = b["shape"]
            else:
                c = L["const"]
                bshape = c["shape"]
                lo, hi = DTRANGE[x["dtype"]]
                cdata = rs.randint(lo, hi + 1, size=bshape).astype(NPDT[x["dtype"]])
                bt = add_tensor(nm + "_c", bshape, x["dtype"], tuple(c["q"]), cdata)
            a_first = not L.get("swap", False)
            oshape = list(np.broadcast_shapes(tuple(x["shape"]), tuple(bshape)))
            y = new_value(nm, oshape, L.get("odtype", x["dtype"]), oq)
            optn = {"ADD": "AddOptions", "SUB": "SubOptions", "MUL": "MulOptions", "MINIMUM": "MaximumMinimumOptions",
                    "MAXIMUM": "MaximumMinimumOptions", "SQUARED_DIFFERENCE": "SquaredDifferenceOptions"}[op]
            optd = {"FusedActivationFunction": act} if op in ("ADD", "SUB", "MUL") else {}
            add_op(BO[op], [x["t"], bt] if a_first else [bt, x["t"]], [y["t"]], (optn, optd), version=2 if op != "SQUARED_DIFFERENCE" else 1)
        elif op in ("RELU", "RELU6", "RELU_N1_TO_1", "LOGISTIC", "TANH", "HARD_SWISH", "ABS", "QUANTIZE", "EXP", "RSQRT", "LOG", "SQRT", "GELU"):
            y = new_value(nm, x["shape"], L.get("odtype", x["dtype"]), oq)
            opt = ("QuantizeOptions", {}) if op == "QUANTIZE" else (("GeluOptions", {"Approximate": bool(L.get("approximate", False))}) if op == "GELU" else None)
            add_op(BO[op], [x["t"]], [y["t"]], opt)
        elif op == "LEAKY_RELU":
            y = new_value(nm, x["shape"], x["dtype"], oq)
            add_op(BO[op], [x["t"]], [y["t"]], ("LeakyReluOptions", {"Alpha": f32(L.get("alpha", 0.1))}), version=2)
        elif op == "PRELU":
            C = x["shape"][-1]
            lo, hi = DTRANGE[x["dtype"]]
            adata = rs.randint(lo, hi + 1, size=(1, 1, C)).astype(NPDT[x["dtype"]])
            at = add_tensor(nm + "_alpha", [1, 1, C], x["dtype"], tuple(L.get("aq", (0.01, 0))), adata)
            y = new_value(nm, x["shape"], x["dtype"], oq)
            add_op(BO[op], [x["t"], at], [y["t"]])
        elif op == "SOFTMAX":
            y = new_value(nm, x["shape"], x["dtype"], oq)
            add_op(BO[op], [x["t"]], [y["t"]], ("SoftmaxOptions", {"Beta": f32(L.get("beta", 1.0))}))
        elif op == "RESHAPE":
            shp = L["shape"]
            if int(np.prod(shp)) != int(np.prod(x["shape"])):
                raise ValueError("RESHAPE element count mismatch")
            wshp = list(shp)
            if L.get("minus1") and len(shp) > 0:
                wshp[int(np.argmax(shp))] = -1  # the largest dimension left to be inferred
            if L.get("shape_in") is not None:
                st = values[L["shape_in"]]["t"]  # the shape operand is computed in the graph (a SHAPE operator)
            else:
                st = add_tensor(nm + "_shape", [len(shp)], "int32", None, np.array(wshp, np.int32))
            y = new_value(nm, shp, x["dtype"], x["q"])
            add_op(BO[op], [x["t"], st], [y["t"]], ("ReshapeOptions", {"NewShape": np.array(wshp, np.int32)}) if L.get("shape_in") is None or L.get("keep_option") else ("ReshapeOptions", {}))
        elif op in ("SQUEEZE", "EXPAND_DIMS"):
            shp = L["shape"]
            y = new_value(nm, shp, x["dtype"], x["q"])
            if op == "SQUEEZE":
                add_op(BO[op], [x["t"]], [y["t"]], ("SqueezeOptions", {"SqueezeDims": np.array(L.get("dims", []), np.int32)}))
            else:
                at = add_tensor(nm + "_axis", [1], "int32", None, np.array([L["axis"] - len(shp) if L.get("axis_neg") else L["axis"]], np.int32))
                add_op(BO[op], [x["t"], at], [y["t"]], ("ExpandDimsOptions", {}))
        elif op == "CONCATENATION":
            ax = L["axis"]
            shp = list(x["shape"])
            if any(len(v["shape"]) != len(shp) or any(v["shape"][d] != shp[d] for d in range(len(shp)) if d != ax) for v in ins):
                raise ValueError("CONCATENATION shape mismatch")
            shp[ax] = sum(v["shape"][ax] for v in ins)
            y = new_value(nm, shp, x["dtype"], oq)
            add_op(BO[op], [v["t"] for v in ins], [y["t"]], ("ConcatenationOptions", {"Axis": ax - len(shp) if L.get("axis_neg") else ax, "FusedActivationFunction": act}))
        elif op == "PAD":
            pads = L["pads"]
            pt = add_tensor(nm + "_pads", [len(pads), 2], "int32", None, np.array(pads, np.int32))
            shp = [s + p[0] + p[1] for s, p in zip(x["shape"], pads)]
            y = new_value(nm, shp, x["dtype"], x["q"])
            add_op(BO[op], [x["t"], pt], [y["t"]], ("PadOptions", {}))
        elif op == "MEAN":
            axes = L["axes"]
            keep = L.get("keepdims", True)
            at = add_tensor(nm + "_axes", [len(axes)], "int32", None, np.array([a - len(x["shape"]) for a in axes] if L.get("axis_neg") else axes, np.int32))
            shp = [1 if i in axes else s for i, s in enumerate(x["shape"])] if keep else [s for i, s in enumerate(x["shape"]) if i not in axes]
            y = new_value(nm, shp, x["dtype"], oq)
            add_op(BO[op], [x["t"], at], [y["t"]], ("ReducerOptions", {"KeepDims": keep}))
        elif op in ("RESIZE_BILINEAR", "RESIZE_NEAREST_NEIGHBOR"):
            oh, ow = L["size"]
            if len(x["shape"]) != 4:
                raise ValueError("resize rank")
            st = add_tensor(nm + "_size", [2], "int32", None, np.array([oh, ow], np.int32))
            y = new_value(nm, [x["shape"][0], oh, ow, x["shape"][3]], x["dtype"], x["q"] if not L.get("q") else oq)
            optn = "ResizeBilinearOptions" if op == "RESIZE_BILINEAR" else "ResizeNearestNeighborOptions"
            add_op(BO[op], [x["t"], st], [y["t"]], (optn, {"AlignCorners": L.get("align_corners", False),
                                                            "HalfPixelCenters": L.get("half_pixel", False)}), version=3)
        elif op == "SPLIT":
            ax, n = L["axis"], L["n"]
            if x["shape"][ax] % n or x["shape"][ax] < n:
                raise ValueError("SPLIT not divisible")
            at = add_tensor(nm + "_axis", [1] if L.get("axis_vec") else [], "int32", None, np.array([ax - len(x["shape"]) if L.get("axis_neg") else ax], np.int32))
            shp = list(x["shape"])
            shp[ax] //= n
            outs = [new_value(f"{nm}_{j}", shp, x["dtype"], x["q"]) for j in range(n)]
            add_op(BO[op], [at, x["t"]], [o["t"] for o in outs], ("SplitOptions", {"NumSplits": n}))
        elif op == "LSTM":
            # UNIDIRECTIONAL_SEQUENCE_LSTM, fully integer (8x8->16): no CIFG / peephole / projection / layer normalisation unless asked for
            tm = bool(L.get("time_major", False))
            if len(x["shape"]) < 1:
                raise ValueError("LSTM input must have a shape")
            n_batch = x["shape"][1] if (tm and len(x["shape"]) >= 2) else x["shape"][0]  # (anything but 3D is a corner case for C13)
            n_in, n_cell = x["shape"][-1], L["units"]
            adt = x["dtype"]  # int8 (int16 activations: the 16x8 flavour)
            wsc = f32(L.get("wscale", 0.01))
            ins_ = [x["t"]]
            for g, gname in enumerate(("i", "f", "c", "o")):
                if g == 0 and L.get("cifg"):
                    ins_.append(-1)
                    continue
                ins_.append(add_tensor(f"{nm}_w_in_{gname}", [n_cell, n_in], "int8", ([wsc], [0]), _weights(rs, [n_cell, n_in], L.get("wstyle", "uniform"), "int8")))
            for g, gname in enumerate(("i", "f", "c", "o")):
                if g == 0 and L.get("cifg"):
                    ins_.append(-1)
                    continue
                rshape = [n_cell, n_cell] if not L.get("rec3d") else [1, n_cell, n_cell]
                ins_.append(add_tensor(f"{nm}_w_rec_{gname}", rshape, "int8", ([wsc], [0]), _weights(rs, rshape, L.get("wstyle", "uniform"), "int8")))
            for gname in ("i", "f", "o"):  # peephole
                if L.get("peephole"):
                    ins_.append(add_tensor(f"{nm}_w_peep_{gname}", [n_cell], "int16", ([f32(2 ** -15)], [0]), rs.randint(-3000, 3000, size=(n_cell,)).astype(np.int16)))
                else:
                    ins_.append(-1)
            bsc = f32(f32(x["q"][0]) * wsc)
            for g, gname in enumerate(("i", "f", "c", "o")):
                if g == 0 and L.get("cifg"):
                    ins_.append(-1)
                    continue
                ins_.append(add_tensor(f"{nm}_b_{gname}", [n_cell], "int32", ([bsc], [0]), rs.randint(-L.get("bmax", 2000), L.get("bmax", 2000) + 1, size=(n_cell,)).astype(np.int32)))
            ins_ += [-1, -1]  # projection
            hq = tuple(oq)
            ins_.append(add_tensor(f"{nm}_state_h", [n_batch, n_cell], adt, hq, None, variable=not L.get("state_not_variable")))
            ins_.append(add_tensor(f"{nm}_state_c", [n_batch, n_cell], "int16", ([f32(2.0 ** -L.get("cell_pow", 11))], [0]), None, variable=not L.get("state_not_variable")))
            if L.get("layer_norm"):
                for gname in ("i", "f", "c", "o"):
                    ins_.append(add_tensor(f"{nm}_ln_{gname}", [n_cell], "int16", ([f32(2 ** -10)], [0]), rs.randint(500, 2000, size=(n_cell,)).astype(np.int16)))
            else:
                ins_ += [-1, -1, -1, -1]
            ins_ = ins_[:L.get("n_inputs", 24)]
            inter = [add_tensor(f"{nm}_inter{j}", [0], "int16", ([f32(2.0 ** -12)], [0])) for j in range(4)]
            inter.append(add_tensor(f"{nm}_inter4", [0], "int8", ([f32(L.get("hidden_scale", hq[0]))], [int(L.get("hidden_zp", hq[1]))])))
            inter = inter[:L.get("n_intermediates", 5)]
            oshape = list(x["shape"][:-1]) + [n_cell]
            y = new_value(nm, oshape, adt, hq)
            add_op(BO["UNIDIRECTIONAL_SEQUENCE_LSTM"], ins_, [y["t"]],
                   ("UnidirectionalSequenceLSTMOptions", {"FusedActivationFunction": 4, "CellClip": f32(L.get("cell_clip", 0.0)), "ProjClip": f32(0.0), "TimeMajor": tm,
                                                         "AsymmetricQuantizeInputs": False}), version=L.get("version", 3), intermediates=inter)
        elif op == "SPLIT_V":
            ax, sizes = L["axis"], list(L["sizes"])
            if sum(sizes) != x["shape"][ax] or min(sizes) < 1:
                raise ValueError("SPLIT_V sizes do not add up")
            wsizes = list(sizes)
            if L.get("minus1"):
                wsizes[int(np.argmax(sizes))] = -1  # one size left to be inferred
            zt = add_tensor(nm + "_sizes", [len(sizes)], "int32", None, np.array(wsizes, np.int32))
            at = add_tensor(nm + "_axis", [1] if L.get("axis_vec") else [], "int32", None, np.array([ax - len(x["shape"]) if L.get("axis_neg") else ax], np.int32))
            outs = []
            for j, sz in enumerate(sizes):
                shp = list(x["shape"])
                shp[ax] = sz
                outs.append(new_value(f"{nm}_{j}", shp, x["dtype"], x["q"]))
            add_op(BO[op], [x["t"], zt, at], [o["t"] for o in outs], ("SplitVOptions", {"NumSplits": len(sizes)}))
        elif op == "SHAPE":
            y = new_value(nm, [len(x["shape"])], "int32", None)
            add_op(BO[op], [x["t"]], [y["t"]], ("ShapeOptions", {"OutType": TT["INT32"]}))
        elif op == "STRIDED_SLICE":
            begin, end = L["begin"], L["end"]
            if len(begin) != len(x["shape"]) or any(not (0 <= b < e <= s_) for b, e, s_ in zip(begin, end, x["shape"])):
                raise ValueError("STRIDED_SLICE out of range")
            r = len(begin)
            bt_ = add_tensor(nm + "_begin", [r], "int32", None, np.array(begin, np.int32))
            et = add_tensor(nm + "_end", [r], "int32", None, np.array(end, np.int32))
            stt = add_tensor(nm + "_strides", [r], "int32", None, np.ones(r, np.int32))
            shp = [e - b for b, e in zip(begin, end)]
            y = new_value(nm, shp, x["dtype"], x["q"])
            add_op(BO[op], [x["t"], bt_, et, stt], [y["t"]], ("StridedSliceOptions", {"BeginMask": 0, "EndMask": 0, "EllipsisMask": 0,
                                                                                      "NewAxisMask": 0, "ShrinkAxisMask": 0}))
        elif op == "SLICE":
            begin, size = L["begin"], L["size"]
            if any(not (0 <= b and b + z <= s_ and z > 0) for b, z, s_ in zip(begin, size, x["shape"])):
                raise ValueError("SLICE out of range")
            r = len(begin)
            bt_ = add_tensor(nm + "_begin", [r], "int32", None, np.array(begin, np.int32))
            szt = add_tensor(nm + "_size", [r], "int32", None, np.array(size, np.int32))
            y = new_value(nm, size, x["dtype"], x["q"])
            add_op(BO[op], [x["t"], bt_, szt], [y["t"]], ("SliceOptions", {}))
        elif op == "DEQUANTIZE":
            y = new_value(nm, x["shape"], "float32", None)
            add_op(BO[op], [x["t"]], [y["t"]], ("DequantizeOptions", {}), version=2)
        elif op in ("FLOOR", "CEIL", "ROUND", "NEG", "SIN"):
            y = new_value(nm, x["shape"], x["dtype"], x["q"])
            add_op(BO[op], [x["t"]], [y["t"]])
        elif op == "CUSTOM":
            ys = [new_value(nm if j == 0 else f"{nm}_{j}", L.get("shape", x["shape"]), L.get("odtype", x["dtype"]), oq) for j in range(L.get("n_out", 1))]
            add_op(BO["CUSTOM"], [v["t"] for v in ins], [y_["t"] for y_ in ys], None, custom=L.get("code", "VerifThirdParty"),
                   custom_options=bytes(L.get("options", [1, 2, 3, 4])))
        elif op == "GATHER":
            idx = L["indices"]
            if any(not (0 <= i_ < x["shape"][L["axis"]]) for i_ in idx):
                raise ValueError("GATHER index out of range")
            it = add_tensor(nm + "_idx", [len(idx)], "int32", None, np.array(idx, np.int32))
            shp = list(x["shape"])
            shp[L["axis"]] = len(idx)
            y = new_value(nm, shp, x["dtype"], x["q"])
            add_op(BO[op], [x["t"], it], [y["t"]], ("GatherOptions", {"Axis": L["axis"] - len(x["shape"]) if L.get("axis_neg") else L["axis"], "BatchDims": 0}))
        elif op == "TRANSPOSE":
            perm = L["perm"]
            pt = add_tensor(nm + "_perm", [len(perm)], "int32", None, np.array(perm, np.int32))
            y = new_value(nm, [x["shape"][p] for p in perm], x["dtype"], x["q"])
            add_op(BO[op], [x["t"], pt], [y["t"]], ("TransposeOptions", {}))
        elif op == "PACK":
            ax = L["axis"]
            shp = list(x["shape"])
            shp.insert(ax, len(ins))
            y = new_value(nm, shp, x["dtype"], x["q"])
            add_op(BO[op], [v["t"] for v in ins], [y["t"]], ("PackOptions", {"ValuesCount": len(ins), "Axis": ax - len(shp) if L.get("axis_neg") else ax}))
        elif op == "UNPACK":
            ax = L["axis"]
            n = x["shape"][ax]
            shp = [s_ for i_, s_ in enumerate(x["shape"]) if i_ != ax]
            outs = [new_value(f"{nm}_{j}", shp, x["dtype"], x["q"]) for j in range(n)]
            add_op(BO[op], [x["t"]], [o["t"] for o in outs], ("UnpackOptions", {"Num": n, "Axis": ax - len(x["shape"]) if L.get("axis_neg") else ax}))
        elif op == "CAST":
            y = new_value(nm, x["shape"], L["odtype"], None)
            add_op(BO[op], [x["t"]], [y["t"]], ("CastOptions", {"InDataType": TTYPE[x["dtype"]], "OutDataType": TTYPE[L["odtype"]]}))
        elif op == "ARG_MAX":
            at = add_tensor(nm + "_axis", [], "int32", None, np.array([L.get("axis", 3) - len(x["shape"]) if L.get("axis_neg") else L.get("axis", 3)], np.int32))
            y = new_value(nm, x["shape"][:-1], "int32", None)
            add_op(BO[op], [x["t"], at], [y["t"]], ("ArgMaxOptions", {"OutputType": TT["INT32"]}))
        else:
            raise ValueError("netgen: unknown op " + op)

    model = {
        "Version": 3,
        "Description": recipe.get("name", "verif"),
        "OperatorCodes": [dict(DeprecatedBuiltinCode=min(c, 127), BuiltinCode=c, Version=v, **({"CustomCode": cu} if cu else {}))
                          for c, v, cu in opcodes],
        "Buffers": [({"Data": b} if b is not None else {}) for b in buffers],
        "Subgraphs": [{"Tensors": tensors, "Inputs": np.array([values[i]["t"] for i in range(len(recipe["inputs"]))], np.int32),
                       "Outputs": np.array([values[v]["t"] for v in recipe["outputs"]], np.int32), "Operators": operators,
                       "Name": "main"}],
    }
    return fbs.build_model(model), dict(values=values, n_tensors=len(tensors))


shared = {}


def build_bytes(recipe):
    shared.clear()
    return build(recipe)[0]


# ----------------------------------------------------------------------------------------------- generating
ACCELS = ["ethos-u55-32", "ethos-u55-64", "ethos-u55-128", "ethos-u55-256", "ethos-u65-256", "ethos-u65-512"]
MEMMODES = [None, "Sram_Only", "Shared_Sram", "Dedicated_Sram"]

FAMILIES = ["conv", "dw", "pool", "ew", "act", "lut", "shape", "fc", "resize", "mean", "softmax", "cpu", "tconv", "lstm"]


def swarm_config(r, profile="mixed"):
    """Per-run swarm: which op families are enabled and how sizes are biased."""
    fams = {f: (r.random() < 0.6) for f in FAMILIES}
    fams["conv"] = fams["conv"] or r.random() < 0.7
    fams["lstm"] = r.random() < 0.2  # unrolled in time and batch: large; kept rarer than the other families
    if profile == "npu_only":
        fams["cpu"] = False
    if profile == "cpu_mix":
        fams["cpu"] = True
    if profile == "stripes":
        for f in ("fc", "softmax", "mean", "cpu"):
            fams[f] = False
        fams["conv"] = fams["dw"] = fams["pool"] = True
    if profile == "lut":
        fams["lut"] = fams["act"] = True
    if not any(fams.values()):
        fams["conv"] = True
    size = r.choice({"mixed": ["tiny", "small", "small", "tall", "deep"], "npu_only": ["tiny", "small", "tall", "deep"],
                     "cpu_mix": ["tiny", "small"], "stripes": ["tall", "tall", "small", "deep"],
                     "lut": ["tiny", "small"], "value": ["tiny", "tiny", "small"]}.get(profile, ["tiny", "small"]))
    return dict(fams=[f for f in FAMILIES if fams[f]], size=size, depth=r.choice([1, 2, 3, 4, 6, 8]) if size != "deep" else r.choice([2, 3, 4]),
                branch_p=r.choice([0.0, 0.15, 0.4]), dtype=r.choices(["int8", "uint8", "int16"], [0.72, 0.13, 0.15])[0],
                per_axis_p=r.choice([0.0, 0.5, 1.0]), dup_names=r.random() < 0.1, extra_out_p=r.choice([0.0, 0.2]))


def _act_q(dtype, kind):
    if kind == "LOGISTIC":
        return {"int8": (1 / 256, -128), "uint8": (1 / 256, 0), "int16": (1 / 32768, 0)}[dtype]
    if kind == "TANH":
        return {"int8": (1 / 128, 0), "uint8": (1 / 128, 128), "int16": (1 / 32768, 0)}[dtype]
    if kind == "SOFTMAX":
        return {"int8": (1 / 256, -128), "uint8": (1 / 256, 0), "int16": (1 / 32768, 0)}[dtype]
    raise KeyError(kind)


def _rand_q(r, dtype, lo=0.005, hi=0.2):
    sc = f32(math.exp(r.uniform(math.log(lo), math.log(hi))))
    if dtype == "int16":
        return (f32(sc / 128), 0)
    a, b = DTRANGE[dtype]
    zp = r.choice([a, b, (a + b + 1) // 2, r.randint(a, b), r.randint(a, b)])
    return (sc, zp)


def gen_recipe(r, cfg=None, profile="mixed"):
    cfg = cfg or swarm_config(r, profile)
    dtype = cfg["dtype"]
    size = cfg["size"]
    if size == "tiny":
        H, W, C = r.randint(1, 8), r.randint(1, 8), r.choice([1, 2, 3, 4, 8, 16])
    elif size == "small":
        H, W, C = r.randint(4, 24), r.randint(4, 24), r.choice([3, 8, 16, 24, 32, 48])
    elif size == "tall":
        H, W, C = r.randint(24, 96), r.randint(4, 20), r.choice([4, 8, 16, 32])
    else:
        H, W, C = r.randint(2, 10), r.randint(2, 10), r.choice([64, 96, 128, 200, 256])
    inputs = [dict(shape=[1, H, W, C], dtype=dtype, q=list(_rand_q(r, dtype)))]
    vals = [dict(shape=[1, H, W, C], dtype=dtype, q=tuple(inputs[0]["q"]), uses=0)]
    if cfg.get("two_inputs", r.random() < 0.12):
        # a second network input: same shape (so that binary operators and concatenations can pick it up), own quantisation
        # half of the time; it may also stay unused, which a valid model is allowed to do
        q2 = list(_rand_q(r, dtype)) if r.random() < 0.5 else list(inputs[0]["q"])
        inputs.append(dict(shape=[1, H, W, C], dtype=dtype, q=q2))
        vals.append(dict(shape=[1, H, W, C], dtype=dtype, q=tuple(q2), uses=0))
    layers = []

    def emit(L, shape, q=None, odtype=None, n_out=1, shapes=None):
        for v in L["in"]:
            vals[v]["uses"] += 1
        L["seed"] = r.randrange(1 << 30)
        if L["op"] == "RESHAPE" and "minus1" not in L and r.random() < 0.15:
            L["minus1"] = True
        if L["op"] in ("CONCATENATION", "SPLIT", "SPLIT_V", "PACK", "UNPACK", "MEAN", "ARG_MAX") and r.random() < 0.25:
            L["axis_neg"] = True  # the same axis written as a negative number
        if dtype == "int16" and L["op"] in ("CONV_2D", "DEPTHWISE_CONV_2D", "FULLY_CONNECTED", "TRANSPOSE_CONV") and "bias64" not in L:
            L["bias64"] = r.random() < float(os.environ.get("VERIF_BIAS64_P", 0.65))  # 16x8 kernels exist for 64-bit and for 32-bit bias
        layers.append(L)
        ids = []
        for j_ in range(n_out):
            vals.append(dict(shape=list(shapes[j_] if shapes else shape), dtype=odtype or vals[L["in"][0]]["dtype"], q=q if q is not None else vals[L["in"][0]]["q"], uses=0))
            ids.append(len(vals) - 1)
        return ids

    def twin(L, shape):
        """siamese branch: a second operator on the same input sharing the weight and bias constants, usually with its own
        output quantisation (the process-wide compression cache must not confuse the two)"""
        if r.random() >= 0.08 or len(layers) >= cfg["depth"]:
            return
        L2 = dict(L)
        sid = len(layers)
        L["shared_w"] = L2["shared_w"] = sid
        L["shared_b"] = L2["shared_b"] = sid
        q2 = _rand_q(r, dtype) if r.random() < 0.75 else tuple(L["q"])
        L2["q"] = list(q2)
        L2["act"] = r.choice(["NONE", L["act"]])
        emit(L2, shape, q2)
        L2["seed"] = L["seed"]

    def pick4d():
        cands = [i for i, v in enumerate(vals) if len(v["shape"]) == 4 and v["dtype"] == dtype and v["shape"][0] == 1]
        if not cands:
            return None
        if r.random() < cfg["branch_p"]:
            return r.choice(cands)
        return cands[-1]

    if len(inputs) == 2 and r.random() < 0.75:
        # join the two inputs first, so that most two-input networks use both
        jop = r.choice(["ADD", "SUB", "MUL", "CONCATENATION", "MAXIMUM"])
        if jop == "MAXIMUM" and vals[0]["q"] != vals[1]["q"]:
            jop = "ADD"
        if jop == "CONCATENATION" and (vals[0]["q"] == vals[1]["q"] or dtype == "uint8"):
            ax = r.choice([1, 2, 3])
            shp = list(vals[0]["shape"])
            shp[ax] *= 2
            qj = vals[0]["q"] if vals[0]["q"] == vals[1]["q"] else _rand_q(r, dtype)
            emit(dict(op="CONCATENATION", axis=ax, q=list(qj), **{"in": [0, 1]}), shp, tuple(qj))
        else:
            if jop == "CONCATENATION":
                jop = "ADD"
            qj = vals[0]["q"] if jop == "MAXIMUM" else _rand_q(r, dtype)
            emit(dict(op=jop, act="NONE", q=list(qj), **{"in": [0, 1] if r.random() < 0.5 else [1, 0]}), vals[0]["shape"], tuple(qj))
    n_layers = cfg["depth"]
    tries = 0
    while len(layers) < n_layers and tries < 60:
        tries += 1
        fam = r.choice(cfg["fams"])
        xi = pick4d()
        if xi is None:
            break
        x = vals[xi]
        _, H, W, C = x["shape"]
        elems = H * W * C
        oq = _rand_q(r, dtype)
        act = r.choice(["NONE", "NONE", "RELU", "RELU6", "RELU_N1_TO_1"])
        if fam == "conv":
            kh, kw = r.choice([(1, 1), (3, 3), (3, 3), (1, 3), (3, 1), (5, 5), (2, 2), (7, 7), (4, 3), (8, 8)])
            sh, sw = r.choice([(1, 1), (1, 1), (2, 2), (2, 1), (1, 2), (3, 3)])
            dh, dw = r.choice([(1, 1), (1, 1), (1, 1), (2, 2), (2, 1)])
            pad = r.choice(["SAME", "VALID"])
            if pad == "VALID" and ((kh - 1) * dh + 1 > H or (kw - 1) * dw + 1 > W):
                pad = "SAME"
            oc = r.choice([1, 2, 4, 8, 16, 16, 24, 32, 48, 64] + ([128, 160] if size == "deep" else []))
            if oc * kh * kw * C > 600000:
                continue
            extra = r.random()
            groups = 1
            if extra < 0.06:
                # dilation above 2 (lowered by the compiler to several operations)
                dh, dw = r.choice([(3, 3), (4, 4), (3, 1), (1, 4)])
                if (kh - 1) * dh + 1 > 64 or ((kh - 1) * dh + 1) * ((kw - 1) * dw + 1) > 4096:
                    dh, dw = 1, 1
                if pad == "VALID" and ((kh - 1) * dh + 1 > H or (kw - 1) * dw + 1 > W):
                    pad = "SAME"
            elif extra < 0.12 and W >= 4:
                # stride in width above 3: folded into the depth by the compiler (VALID padding, width divisible)
                sw = r.choice([4, 6, 8])
                sh = r.choice([1, 2, 3])
                pad = "VALID"
                if (kw - 1) * dw + 1 > W or (kh - 1) * dh + 1 > H:
                    kh, kw, dh, dw = 1, 1, 1, 1
            elif extra < 0.18:
                gs = [g for g in (2, 4, 8) if C % g == 0 and oc % g == 0]
                if gs:
                    groups = r.choice(gs)
            OH, OW = conv_out(H, kh, sh, dh, pad), conv_out(W, kw, sw, dw, pad)
            if OH < 1 or OW < 1:
                continue
            L = dict(op="CONV_2D", k=[kh, kw], oc=oc, stride=[sh, sw], dil=[dh, dw], pad=pad, act=act, q=list(oq),
                     per_axis=r.random() < cfg["per_axis_p"], wstyle=r.choice(["uniform", "uniform", "small", "sparse", "extreme"]),
                     wscale=f32(r.choice([0.002, 0.01, 0.03])), bias=r.random() < 0.9)
            if groups > 1:
                L["groups"] = groups
            L["in"] = [xi]
            emit(L, [1, OH, OW, oc], oq)
            twin(L, [1, OH, OW, oc])
        elif fam == "dw":
            kh, kw = r.choice([(3, 3), (3, 3), (1, 1), (5, 5), (2, 2), (3, 1), (1, 5)])
            sh, sw = r.choice([(1, 1), (1, 1), (2, 2), (1, 2)])
            dh, dw = r.choice([(1, 1), (1, 1), (2, 2)])
            pad = r.choice(["SAME", "VALID"])
            if pad == "VALID" and ((kh - 1) * dh + 1 > H or (kw - 1) * dw + 1 > W):
                pad = "SAME"
            OH, OW = conv_out(H, kh, sh, dh, pad), conv_out(W, kw, sw, dw, pad)
            L = dict(op="DEPTHWISE_CONV_2D", k=[kh, kw], stride=[sh, sw], dil=[dh, dw], pad=pad, act=act, q=list(oq),
                     per_axis=r.random() < cfg["per_axis_p"], wstyle=r.choice(["uniform", "small", "sparse"]),
                     wscale=f32(r.choice([0.002, 0.01, 0.03])), bias=r.random() < 0.9)
            mult = 1
            if C == 1 and r.random() < 0.5:
                mult = r.choice([2, 4, 8, 16])  # depth multiplier: one input channel fanned out
                L["mult"] = mult
            L["in"] = [xi]
            emit(L, [1, OH, OW, C * mult], oq)
            twin(L, [1, OH, OW, C * mult])
        elif fam == "pool":
            op = r.choice(["MAX_POOL_2D", "AVERAGE_POOL_2D"])
            kh, kw = r.choice([(2, 2), (3, 3), (2, 2), (1, 1), (3, 2), (4, 4), (8, 8)])
            sh, sw = r.choice([(1, 1), (2, 2), (2, 2), (1, 2), (3, 3), (4, 4)])  # stride 4: average pool becomes a convolution
            pad = r.choice(["SAME", "VALID"])
            if H <= 8 and W <= 8 and r.random() < 0.12:
                kh, kw = H, W  # a window as large as the feature map: "global" with VALID, several window positions with SAME and a small stride
            if pad == "VALID" and (kh > H or kw > W):
                pad = "SAME"
            OH, OW = conv_out(H, kh, sh, 1, pad), conv_out(W, kw, sw, 1, pad)
            L = dict(op=op, k=[kh, kw], stride=[sh, sw], pad=pad, act=r.choice(["NONE", "NONE", "RELU"]))
            L["in"] = [xi]
            emit(L, [1, OH, OW, C], x["q"])
        elif fam == "ew":
            op = r.choice(["ADD", "ADD", "SUB", "MUL", "MINIMUM", "MAXIMUM", "SQUARED_DIFFERENCE"])
            others = [i for i, v in enumerate(vals) if v["shape"] == x["shape"] and v["dtype"] == dtype and i != xi]
            mode = r.random()
            if op in ("MINIMUM", "MAXIMUM"):
                oq_ = x["q"]
            else:
                oq_ = oq
            L = dict(op=op, act=act if op in ("ADD", "SUB", "MUL") else "NONE", q=list(oq_))
            if others and mode < 0.5:
                bi = r.choice(others)
                if op in ("MINIMUM", "MAXIMUM") and vals[bi]["q"] != x["q"]:
                    continue
                L["in"] = [xi, bi]
            elif mode < 0.6:
                L["in"] = [xi, xi]
            else:
                bshape = r.choice([[1, 1, 1, C], [1, 1, 1, 1], [1, H, W, C], [1, 1, W, C], [1, H, 1, 1], [], [C]])
                L["in"] = [xi]
                L["const"] = dict(shape=bshape, q=list(x["q"] if op in ("MINIMUM", "MAXIMUM") else _rand_q(r, dtype)))
                L["swap"] = r.random() < 0.3
            emit(L, x["shape"], tuple(oq_))
        elif fam == "act":
            op = r.choice(["RELU", "RELU6", "RELU_N1_TO_1", "LEAKY_RELU", "ABS", "QUANTIZE"])
            if dtype == "int16" and op in ("LEAKY_RELU",):
                pass
            if dtype in ("int8", "uint8") and r.random() < 0.12:
                op = "PRELU"  # per-channel alpha, some >= 1: lowered to min / mul / relu / add with temporaries
            if op == "QUANTIZE" and r.random() < 0.4:
                # QUANTIZE that changes the element type; usually converted back by a second one (the generator is otherwise
                # single-typed), sometimes through an operator working in the other type, sometimes left as a network output
                other = r.choice([t for t in ("int8", "uint8", "int16") if t != dtype])
                q1 = _rand_q(r, other)
                if r.random() < 0.3:
                    # same real range seen through the other type (the exact-conversion special cases of the compiler)
                    if {dtype, other} == {"int8", "uint8"}:
                        q1 = (x["q"][0], x["q"][1] + (128 if other == "uint8" else -128))
                    elif other == "int16":
                        q1 = (f32(x["q"][0] / 256), 0)
                a_ = emit(dict(op="QUANTIZE", q=list(q1), odtype=other, **{"in": [xi]}), x["shape"], tuple(q1), odtype=other)
                m = r.random()
                if m < 0.35:
                    a_ = emit(dict(op=r.choice(["RELU", "RELU6", "MAX_POOL_2D"]), k=[2, 2], stride=[1, 1], pad="SAME", act="NONE", **{"in": a_}), x["shape"], tuple(q1), odtype=other)
                if m < 0.8:
                    emit(dict(op="QUANTIZE", q=list(oq), odtype=dtype, **{"in": a_}), x["shape"], tuple(oq), odtype=dtype)
                continue
            L = dict(op=op)
            if op == "PRELU":
                L["aq"] = [f32(r.choice([0.004, 0.01, 0.02])), 0 if dtype == "int8" else 128]
                L["q"] = list(oq)
            if op in ("QUANTIZE", "LEAKY_RELU", "PRELU"):
                L["q"] = list(oq)
                q_ = oq
            elif op in ("RELU", "RELU6", "RELU_N1_TO_1") and dtype in ("int8", "uint8") and r.random() < 0.25:
                # a ReLU whose output is quantised differently from its input: same scale and another zero point, or rescaled
                lo_, hi_ = DTRANGE[dtype]
                q_ = (x["q"][0], r.randint(lo_, hi_)) if r.random() < 0.5 else oq
                L["q"] = list(q_)
            else:
                q_ = x["q"]
            if op == "LEAKY_RELU":
                L["alpha"] = r.choice([0.1, 0.01, 0.3, 1.5, -0.2, 0.0])
            L["in"] = [xi]
            emit(L, x["shape"], tuple(q_))
        elif fam == "lut":
            op = r.choice(["LOGISTIC", "TANH", "HARD_SWISH", "LEAKY_RELU"])
            if dtype in ("int8", "int16") and r.random() < 0.3:
                op = r.choice(["EXP", "LOG", "SQRT", "RSQRT", "GELU", "GELU"]) if dtype == "int8" else r.choice(["EXP", "LOG", "SQRT", "GELU"])
            if op in ("LOGISTIC", "TANH"):
                q_ = _act_q(dtype, op)
            else:
                q_ = oq
            L = dict(op=op, q=list(q_))
            if op == "LEAKY_RELU":
                L["alpha"] = r.choice([0.1, 0.2])
            if op == "GELU":
                L["approximate"] = r.random() < 0.5
            L["in"] = [xi]
            y1 = emit(L, x["shape"], tuple(q_))
            if dtype in ("int8", "uint8") and r.random() < 0.2 and len(layers) + 2 <= cfg["depth"] + 2:
                # the same table again after table-less elementwise operations (same function, same input and output quantisation):
                # whether the table has to be fetched again depends on what ran in between
                mid = y1
                for _ in range(r.choice([1, 1, 2])):
                    eop = r.choice(["ADD", "MUL", "SUB", "MAXIMUM"])
                    cq = x["q"] if eop == "MAXIMUM" else _rand_q(r, dtype)
                    mq = vals[mid[0]]["q"] if eop == "MAXIMUM" else x["q"]
                    mid = emit(dict(op=eop, act="NONE", q=list(x["q"]) if eop != "MAXIMUM" else list(mq), const=dict(shape=r.choice([[1, 1, 1, C], [1, 1, 1, 1]]), q=list(cq)),
                                    swap=False, **{"in": mid}), x["shape"], tuple(x["q"]) if eop != "MAXIMUM" else tuple(mq))
                if tuple(vals[mid[0]]["q"]) == tuple(x["q"]):
                    L2 = dict(L)
                    L2["in"] = mid
                    emit(L2, x["shape"], tuple(q_))
        elif fam == "shape":
            op = r.choice(["RESHAPE", "CONCATENATION", "PAD", "SPLIT", "STRIDED_SLICE", "CONCATENATION", "SLICE", "TRANSPOSE", "SQUEEZE_EXPAND", "UNPACK_PACK",
                           "SPLIT_V", "SHAPE"])
            if op == "SLICE":
                begin = [0, r.randint(0, H // 2), r.randint(0, W // 2), r.randint(0, C // 2)]
                size_ = [1, r.randint(1, H - begin[1]), r.randint(1, W - begin[2]), r.randint(1, C - begin[3])]
                emit(dict(op="SLICE", begin=begin, size=size_, **{"in": [xi]}), size_, x["q"])
            elif op == "TRANSPOSE":
                if H * W * C > 40000:
                    continue
                perm = r.choice([[0, 2, 1, 3], [0, 2, 1, 3], [0, 1, 3, 2], [0, 3, 2, 1]])
                emit(dict(op="TRANSPOSE", perm=perm, **{"in": [xi]}), [x["shape"][p_] for p_ in perm], x["q"])
            elif op == "SQUEEZE_EXPAND":
                # EXPAND_DIMS to rank 5 is not an NPU shape; stay within rank 4: squeeze a unit axis and put one back elsewhere
                unit = [d for d in (1, 2) if x["shape"][d] == 1]
                if not unit:
                    continue
                d = r.choice(unit)
                shp3 = [s_ for i_, s_ in enumerate(x["shape"]) if i_ != d]
                a = emit(dict(op="SQUEEZE", shape=shp3, dims=[d], **{"in": [xi]}), shp3, x["q"])
                ax = r.choice([1, 2])
                shp4 = list(shp3)
                shp4.insert(ax, 1)
                emit(dict(op="EXPAND_DIMS", shape=shp4, axis=ax, **{"in": a}), shp4, x["q"])
            elif op == "UNPACK_PACK":
                ax = r.choice([1, 2])
                n = x["shape"][ax]
                if n > 4 or n < 2:
                    continue
                shp3 = [s_ for i_, s_ in enumerate(x["shape"]) if i_ != ax]
                parts = emit(dict(op="UNPACK", axis=ax, n_out=n, **{"in": [xi]}), shp3, x["q"], n_out=n)
                order = list(parts)
                r.shuffle(order)
                ax2 = r.choice([1, 2])
                shp4 = list(shp3)
                shp4.insert(ax2, n)
                emit(dict(op="PACK", axis=ax2, **{"in": order}), shp4, x["q"])
            elif op == "RESHAPE":
                facs = [(1, H * W, 1, C), (1, W, H, C), (1, 1, 1, elems), (1, H, W * C, 1), (1, H * W * C)]
                if C % 2 == 0:
                    facs.append((1, H, W * 2, C // 2))
                shp = list(r.choice(facs))
                emit(dict(op="RESHAPE", shape=shp, **{"in": [xi]}), shp, x["q"])
            elif op == "CONCATENATION":
                ax = r.choice([3, 3, 1, 2])
                # the int8 reference kernel requires identical quantisation of all operands and the result; uint8 may rescale
                same_q = dtype != "uint8" or r.random() < 0.5
                cands = [i for i, v in enumerate(vals) if len(v["shape"]) == 4 and v["dtype"] == dtype and
                         all(v["shape"][d] == x["shape"][d] for d in range(4) if d != ax) and (not same_q or tuple(v["q"]) == tuple(x["q"]))]
                k = r.choice([2, 2, 3])
                ins_ = [xi] + [r.choice(cands) for _ in range(k - 1)]
                shp = list(x["shape"])
                shp[ax] = sum(vals[i]["shape"][ax] for i in ins_)
                if shp[ax] > 4096:
                    continue
                q_ = x["q"] if same_q else oq
                emit(dict(op="CONCATENATION", axis=ax, q=list(q_), **{"in": ins_}), shp, tuple(q_))
            elif op == "PAD":
                pads = [[0, 0], [r.randint(0, 2), r.randint(0, 2)], [r.randint(0, 2), r.randint(0, 2)], [0, 0]]
                if r.random() < 0.3:
                    pads[3] = [r.choice([0, 0, 1, 8]), r.choice([0, 3, 8])]  # depth padding
                    if r.random() < 0.3:
                        pads[0] = [r.choice([0, 1]), r.choice([0, 1])]  # and batch padding (the result is then only a network output)
                        pads[1], pads[2] = [0, 0], [0, 0]
                shp = [s + p[0] + p[1] for s, p in zip(x["shape"], pads)]
                emit(dict(op="PAD", pads=pads, **{"in": [xi]}), shp, x["q"])
            elif op == "SPLIT_V":
                ax = r.choice([3, 3, 1, 2])
                n = r.choice([2, 2, 3])
                if x["shape"][ax] < n:
                    continue
                cuts = sorted(r.sample(range(1, x["shape"][ax]), n - 1))
                sizes = [b_ - a_ for a_, b_ in zip([0] + cuts, cuts + [x["shape"][ax]])]
                shps = []
                for sz in sizes:
                    shp = list(x["shape"])
                    shp[ax] = sz
                    shps.append(shp)
                emit(dict(op="SPLIT_V", axis=ax, sizes=sizes, minus1=r.random() < 0.3, **{"in": [xi]}), shps[0], x["q"], n_out=n, shapes=shps)
            elif op == "SHAPE":
                # the shape of a tensor as data: a network output, or the shape operand of a RESHAPE of another tensor with as many elements
                sv = emit(dict(op="SHAPE", **{"in": [xi]}), [len(x["shape"])], None, odtype="int32")
                cands = [i for i, v in enumerate(vals) if v["dtype"] == dtype and i != xi and int(np.prod(v["shape"])) == elems and v["shape"] != x["shape"]]
                if r.random() < 0.7:
                    if cands:
                        ci = r.choice(cands)
                    else:
                        flat = [1, elems] if r.random() < 0.5 else [1, 1, H * W, C]
                        if flat == list(x["shape"]):
                            continue
                        ci = emit(dict(op="RESHAPE", shape=flat, **{"in": [xi]}), flat, x["q"])[0]
                    emit(dict(op="RESHAPE", shape=list(x["shape"]), shape_in=sv[0], keep_option=r.random() < 0.5, **{"in": [ci, sv[0]]}), x["shape"], vals[ci]["q"])
            elif op == "SPLIT":
                ax = r.choice([3, 1, 2])
                n = r.choice([2, 2, 3, 4])
                if x["shape"][ax] % n or x["shape"][ax] // n == 0:
                    continue
                shp = list(x["shape"])
                shp[ax] //= n
                emit(dict(op="SPLIT", axis=ax, n=n, **{"in": [xi]}), shp, x["q"], n_out=n)
            else:
                begin = [0, r.randint(0, H // 2), r.randint(0, W // 2), r.randint(0, C // 2)]
                end = [1, r.randint(begin[1] + 1, H), r.randint(begin[2] + 1, W), r.randint(begin[3] + 1, C)]
                shp = [e - b for b, e in zip(begin, end)]
                emit(dict(op="STRIDED_SLICE", begin=begin, end=end, **{"in": [xi]}), shp, x["q"])
        elif fam == "fc":
            if elems > 4096:
                continue
            oc = r.choice([1, 4, 10, 16, 32, 64])
            L = dict(op="FULLY_CONNECTED", oc=oc, act=act, q=list(oq), wstyle=r.choice(["uniform", "small"]),
                     wscale=f32(r.choice([0.002, 0.01])), bias=r.random() < 0.85)
            L["in"] = [xi]
            ids = emit(L, [1, oc], oq)
            if r.random() < 0.7:
                emit(dict(op="RESHAPE", shape=[1, 1, 1, oc], **{"in": ids}), [1, 1, 1, oc], oq)
        elif fam == "resize":
            op = r.choice(["RESIZE_BILINEAR", "RESIZE_NEAREST_NEIGHBOR"])
            f = r.choice([2, 2, 4])
            if H * f * W * f * C > 200000:
                continue
            ac = r.random() < 0.3
            hp = (not ac) and r.random() < (0.55 if op == "RESIZE_BILINEAR" else 0.3)  # (the half-pixel bilinear lowering is the intricate one)
            if ac:
                size_ = [(H - 1) * f + 1, (W - 1) * f + 1]
            else:
                size_ = [H * f, W * f]
            emit(dict(op=op, size=size_, align_corners=ac, half_pixel=hp, **{"in": [xi]}), [1, size_[0], size_[1], C], x["q"])
        elif fam == "mean":
            axes = r.choice([[1, 2], [1, 2], [1], [2]])
            keep = True
            shp = [1 if i in axes else s for i, s in enumerate(x["shape"])]
            q_ = x["q"] if r.random() < 0.5 else oq
            emit(dict(op="MEAN", axes=axes, keepdims=keep, q=list(q_), **{"in": [xi]}), shp, tuple(q_))
        elif fam == "softmax":
            if H * W > 64 or dtype == "uint8" and False:
                continue
            q_ = _act_q(dtype, "SOFTMAX")
            emit(dict(op="SOFTMAX", beta=r.choice([1.0, 0.5, 2.0]), q=list(q_), **{"in": [xi]}), x["shape"], tuple(q_))
        elif fam == "tconv":
            kh, kw = r.choice([(2, 2), (3, 3), (4, 4)])
            pad = r.choice(["SAME", "VALID"])
            oc = r.choice([4, 8, 16])
            if H * 2 * W * 2 * oc > 100000:
                continue
            OH = H * 2 if pad == "SAME" else (H - 1) * 2 + kh
            OW = W * 2 if pad == "SAME" else (W - 1) * 2 + kw
            L = dict(op="TRANSPOSE_CONV", k=[kh, kw], oc=oc, stride=[2, 2], pad=pad, q=list(oq), per_axis=r.random() < cfg["per_axis_p"],
                     wstyle="uniform", wscale=0.01, bias=r.random() < 0.5)
            L["in"] = [xi]
            emit(L, [1, OH, OW, oc], oq)
        elif fam == "lstm":
            if dtype != "int8" or C > 64:
                continue
            # the tensor seen as a sequence: [batch, time, feature] or, time major, [time, batch, feature]
            splits = [(nb, (H * W) // nb) for nb in (1, 1, 2, 3) if (H * W) % nb == 0 and (H * W) // nb <= 6 and H * W <= 12]
            if not splits:
                continue
            nb, nt = r.choice(splits)
            tm = r.random() < 0.5
            shp3 = [nt, nb, C] if tm else [nb, nt, C]
            a_ = emit(dict(op="RESHAPE", shape=shp3, **{"in": [xi]}), shp3, x["q"])
            units = r.choice([1, 4, 8, 16, 16, 24, 32])
            hq = (f32(r.choice([1 / 128, 0.006, 0.01])), r.choice([0, 0, -5, 10]))
            y_ = emit(dict(op="LSTM", units=units, q=list(hq), time_major=tm, wscale=f32(r.choice([0.002, 0.004, 0.008])), cell_pow=r.choice([9, 10, 11, 12]),
                           cell_clip=r.choice([0.0, 0.0, 1.5, 8.0]), bmax=r.choice([0, 500, 5000]), wstyle=r.choice(["uniform", "small", "sparse"]), **{"in": a_}),
                      shp3[:2] + [units], hq)
            emit(dict(op="RESHAPE", shape=[1, shp3[0], shp3[1], units], **{"in": y_}), [1, shp3[0], shp3[1], units], hq)
        elif fam == "cpu":
            kind = r.choice(["custom", "deq_floor_q", "gather", "big_stride", "unsupported_act", "dyn_fc", "argmax", "lstm_cpu"])
            if kind == "lstm_cpu":
                # an LSTM flavour the NPU lowering does not take (peephole / CIFG / layer normalisation): stays on the CPU with its 24
                # operands, five intermediates and two variable state tensors
                if dtype != "int8" or C > 64 or H * W > 12:
                    continue
                tm = r.random() < 0.5
                shp3 = [H * W, 1, C] if tm else [1, H * W, C]
                a_ = emit(dict(op="RESHAPE", shape=shp3, **{"in": [xi]}), shp3, x["q"])
                units = r.choice([1, 4, 8, 16])
                hq = (f32(1 / 128), 0)
                Lc = dict(op="LSTM", units=units, q=list(hq), time_major=tm, wscale=f32(0.004), cell_pow=11, **{"in": a_})
                Lc[r.choice(["peephole", "cifg", "layer_norm"])] = True
                y_ = emit(Lc, shp3[:2] + [units], hq)
                emit(dict(op="RESHAPE", shape=[1, shp3[0], shp3[1], units], **{"in": y_}), [1, shp3[0], shp3[1], units], hq)
                continue
            if kind == "dyn_fc" and dtype in ("int8", "uint8") and elems <= 4096:
                # FULLY_CONNECTED whose weights are computed by an operator the compiler can place on the NPU
                oc_ = r.choice([2, 4, 8])
                n_in = elems // oc_
                if n_in < 1 or oc_ * n_in != elems:
                    continue
                src = emit(dict(op=r.choice(["RELU", "RELU6"]), **{"in": [xi]}), x["shape"], x["q"])
                wq_ = x["q"] if dtype == "uint8" else (x["q"][0], 0)
                if dtype == "int8" and x["q"][1] != 0:
                    src = emit(dict(op="QUANTIZE", q=list(wq_), **{"in": src}), x["shape"], wq_)
                wv = emit(dict(op="RESHAPE", shape=[oc_, n_in], **{"in": src}), [oc_, n_in], wq_)
                act_src = [i for i, v in enumerate(vals) if v["dtype"] == dtype and len(v["shape"]) >= 2 and int(np.prod(v["shape"])) % n_in == 0
                           and int(np.prod(v["shape"])) // n_in <= 8 and i != wv[0]]
                if not act_src:
                    continue
                ai = r.choice(act_src)
                batch = int(np.prod(vals[ai]["shape"])) // n_in
                a2 = emit(dict(op="RESHAPE", shape=[batch, n_in], **{"in": [ai]}), [batch, n_in], vals[ai]["q"])
                emit(dict(op="FULLY_CONNECTED", oc=oc_, act="NONE", q=list(oq), bias=r.random() < 0.5, w_from=wv[0], flatten=False, **{"in": a2}), [batch, oc_], oq)
                continue
            if kind == "argmax":
                am = emit(dict(op="ARG_MAX", axis=3, **{"in": [xi]}), x["shape"][:-1], None, odtype="int32")
                if r.random() < 0.5:
                    # RESHAPE of the 32-bit result: passes the semantic checks, is placed on the CPU by the supported-operator check
                    emit(dict(op="RESHAPE", shape=[1, H * W], minus1=r.random() < 0.6, **{"in": am}), [1, H * W], None, odtype="int32")
                continue
            if kind in ("dyn_fc", "argmax"):
                continue
            if kind == "custom":
                ins_c = [xi]
                if r.random() < 0.25:
                    # the (folded) shape of the tensor as a second operand of an operator that stays on the CPU
                    ins_c.append(emit(dict(op="SHAPE", **{"in": [xi]}), [len(x["shape"])], None, odtype="int32")[0])
                n_out = r.choice([1, 1, 2, 2, 3])
                ids_c = emit(dict(op="CUSTOM", code=r.choice(["VerifThirdParty", "OtherVendorOp"]), options=[r.randrange(256) for _ in range(r.randint(0, 9))], n_out=n_out,
                               **{"in": ins_c}), x["shape"], x["q"], n_out=n_out)
                if n_out > 1:
                    if r.random() < 0.5:
                        # a later output (not the first) feeds an operator the NPU can take
                        emit(dict(op=r.choice(["RELU", "MAX_POOL_2D"]), k=[2, 2], stride=[1, 1], pad="SAME", act="NONE", **{"in": [ids_c[-1]]}), x["shape"], x["q"])
                    if r.random() < 0.4:
                        vals[ids_c[r.randrange(n_out)]]["dangling"] = True  # an output nothing reads and that is no network output either
            elif kind == "deq_floor_q":
                a = emit(dict(op="DEQUANTIZE", **{"in": [xi]}), x["shape"], None, odtype="float32")
                b = emit(dict(op=r.choice(["FLOOR", "CEIL", "NEG"]), **{"in": a}), x["shape"], None, odtype="float32")
                emit(dict(op="QUANTIZE", q=list(oq), odtype=dtype, **{"in": b}), x["shape"], oq, odtype=dtype)
            elif kind == "gather":
                idx = [r.randrange(C) for _ in range(r.randint(1, C))]
                emit(dict(op="GATHER", axis=3, indices=idx, **{"in": [xi]}), [1, H, W, len(idx)], x["q"])
            elif kind == "big_stride":
                if H < 4 or W < 4:
                    continue
                L = dict(op="CONV_2D", k=[1, 1], oc=8, stride=[4, 4], dil=[1, 1], pad="VALID", act="NONE", q=list(oq), per_axis=False,
                         wstyle="small", wscale=0.01, bias=True)
                if C % 2 == 0 and r.random() < 0.5:
                    L["groups"] = 2  # a grouped convolution that stays on the CPU must not be taken apart
                L["in"] = [xi]
                emit(L, [1, conv_out(H, 1, 4, 1, "VALID"), conv_out(W, 1, 4, 1, "VALID"), 8], oq)
            else:
                emit(dict(op="TRANSPOSE", perm=[0, 2, 1, 3], **{"in": [xi]}), [1, W, H, C], x["q"])
    if not layers:
        emit(dict(op="RELU", **{"in": [0]}), vals[0]["shape"], vals[0]["q"])
    outs = [i for i, v in enumerate(vals) if v["uses"] == 0 and i >= len(inputs) and not v.get("dangling")]
    if not outs:
        outs = [len(vals) - 1]
    for i, v in enumerate(vals):
        if i >= len(inputs) and i not in outs and r.random() < cfg["extra_out_p"] and not v.get("dangling"):
            outs.append(i)
    rec_ = dict(name="net", inputs=inputs, layers=layers, outputs=outs, dup_names=cfg["dup_names"])
    if r.random() < 0.15:
        rec_["minmax"] = True
    return rec_


def gen_options(r, profile="mixed"):
    acc = r.choice(ACCELS)
    opts = ["--accelerator-config", acc]
    mm = r.choice(MEMMODES)
    if acc.startswith("ethos-u55") and mm == "Dedicated_Sram":
        mm = r.choice([None, "Sram_Only", "Shared_Sram"])
    if acc.startswith("ethos-u65") and mm == "Sram_Only":
        mm = r.choice([None, "Shared_Sram", "Dedicated_Sram"])
    cfg = dict(acc=acc, memmode=mm)
    if mm is not None:
        opts += ["--config", "@VELA_INI@", "--system-config", "Ethos_U65_High_End" if acc.startswith("ethos-u65") else "Ethos_U55_High_End_Embedded",
                 "--memory-mode", mm]
    if r.random() < 0.5:
        opts += ["--optimise", r.choice(["Size", "Performance"])]
    if r.random() < 0.5:
        ac = int(math.exp(r.uniform(math.log(8 << 10), math.log(2 << 20))))
        opts += ["--arena-cache-size", str(ac)]
        cfg["arena_cache"] = ac
    if r.random() < 0.4:
        opts += ["--tensor-allocator", r.choice(["Greedy", "LinearAlloc", "HillClimb"])]
    if r.random() < 0.3:
        al = r.choice([16, 32, 64, 128, 256])
        opts += ["--cpu-tensor-alignment", str(al)]
        cfg["align"] = al
    if r.random() < 0.2:
        opts += ["--max-block-dependency", str(r.choice([0, 1, 2, 3]))]
    if r.random() < 0.1:
        opts += ["--hillclimb-max-iterations", str(r.choice([1, 10, 1000]))]
    return opts, cfg


def _n_out(L):
    if L["op"] == "SPLIT":
        return L["n"]
    if L["op"] == "UNPACK":
        return L["n_out"]
    if L["op"] == "SPLIT_V":
        return len(L["sizes"])
    if L["op"] == "CUSTOM":
        return L.get("n_out", 1)
    return 1


def drop_layer(recipe, j):
    """Remove layer j.  Consumers of its output are rewired to its first input when shape/dtype/quantisation agree;
    otherwise the layer can only go if nothing consumes it.  -> new recipe or None."""
    import copy

    try:
        shared.clear()
        _, info = build(recipe)
    except Exception:
        return None
    vals = info["values"]
    n_in = len(recipe["inputs"])
    first = n_in + sum(_n_out(L) for L in recipe["layers"][:j])
    L = recipe["layers"][j]
    outs = list(range(first, first + _n_out(L)))
    used = any(v in outs for M in recipe["layers"][j + 1:] for v in M["in"])
    repl = None
    if used:
        if len(outs) != 1 or not L["in"]:
            return None
        a, b = vals[outs[0]], vals[L["in"][0]]
        if a["shape"] != b["shape"] or a["dtype"] != b["dtype"]:
            return None
        repl = L["in"][0]
    new = copy.deepcopy(recipe)
    del new["layers"][j]

    def m(v):
        if v in outs:
            return repl
        return v - len(outs) if v > outs[-1] else v

    for M in new["layers"]:
        M["in"] = [m(v) for v in M["in"]]
    o = [m(v) for v in recipe["outputs"] if m(v) is not None]
    nvals = n_in + sum(_n_out(M) for M in new["layers"])
    usedv = set(v for M in new["layers"] for v in M["in"])
    leaves = [v for v in range(n_in, nvals) if v not in usedv]
    new["outputs"] = sorted(set(o) | set(leaves)) or ([nvals - 1] if nvals > n_in else [])
    if not new["layers"]:
        return None
    return new


def minimise_recipe(recipe, still_fails, budget=60):
    """Delta-debug a recipe: drop layers (rewiring where shapes allow), shrink the input, keep a step only if the same
    violation persists (still_fails(recipe'))."""
    import copy

    best = recipe
    steps = 0

    def ok(rc):
        try:
            shared.clear()
            build(rc)
            return True
        except Exception:
            return False

    changed = True
    while changed and steps < budget:
        changed = False
        for j in range(len(best["layers"]) - 1, -1, -1):
            if len(best["layers"]) <= 1 or steps >= budget:
                break
            cand = drop_layer(best, j)
            if cand is None or not ok(cand):
                continue
            steps += 1
            if still_fails(cand):
                best = cand
                changed = True
        for dim in (1, 2, 3):
            s = best["inputs"][0]["shape"]
            while len(s) == 4 and s[dim] > 1 and steps < budget:
                cand = copy.deepcopy(best)
                cand["inputs"][0]["shape"][dim] = max(1, s[dim] // 2)
                if not ok(cand):
                    break
                steps += 1
                if still_fails(cand):
                    best = cand
                    changed = True
                    s = best["inputs"][0]["shape"]
                else:
                    break
        if len(best["outputs"]) > 1 and steps < budget:
            for o in list(best["outputs"]):
                cand = copy.deepcopy(best)
                cand["outputs"] = [v for v in cand["outputs"] if v != o]
                if cand["outputs"] and ok(cand):
                    steps += 1
                    if still_fails(cand):
                        best = cand
                        changed = True
    return best


# ----------------------------------------------------------------------------------------------- corner cases (C13)
PRIMES = [1, 1, 2, 3, 5, 7, 11, 13, 17, 31, 37, 64, 127, 251]
ALL_DT = ["int8", "uint8", "int16", "int32", "float32"]


def _corner_shape(r, rank=None, big=False):
    rank = r.choice([0, 1, 2, 3, 4, 4, 4, 5]) if rank is None else rank
    shp = [r.choice(PRIMES[:9] if not big else PRIMES) for _ in range(rank)]
    while int(np.prod(shp)) > 20000 and shp:
        shp[r.randrange(len(shp))] = 1
    if rank >= 1 and r.random() < 0.6:
        shp[0] = 1
    return shp


def gen_corner_recipe(r):
    """Structurally valid but unusual models: ranks 0..5, unit / prime dims, batch > 1, every data type, missing or per-axis
    quantisation, unsupported operators and attribute values, dynamic weights, third-party custom operators."""
    dt = r.choice(["int8", "int8", "uint8", "int16", "int32", "float32"])
    q = (lambda: None) if dt in ("float32",) or r.random() < 0.12 else (lambda: list(_rand_q(r, dt if dt != "int32" else "int16")))
    kind = r.choice(["ew", "ew", "unary", "unary", "conv", "conv", "dw", "fc", "pool", "shape", "mean", "mean", "softmax", "resize", "unsupported", "chain", "lstm"])
    inputs, layers = [], []

    def inp(shape, dtype=dt, qq="auto"):
        inputs.append(dict(shape=shape, dtype=dtype, q=(q() if qq == "auto" else qq)))
        return len(inputs) - 1

    def pa(shape, dtype=dt):
        """per-axis quantisation parameters (scale / zero point vectors along one axis) for a tensor of this shape"""
        if not shape or dtype not in DTRANGE:
            return list(_rand_q(r, "int8"))
        ax = r.randrange(len(shape)) if r.random() < 0.3 else len(shape) - 1
        n = max(1, shape[ax])
        base = _rand_q(r, dtype)
        return [[f32(base[0] * (1 + 0.1 * (i % 7))) for i in range(n)], [int(base[1])] * n if r.random() < 0.7 else [int(base[1]) + (i % 3) for i in range(n)], ax]

    if kind == "ew":
        a = _corner_shape(r)
        mode = r.random()
        if mode < 0.4:
            b = list(a)
        elif mode < 0.7:
            b = [1 if r.random() < 0.5 else s_ for s_ in a][r.randrange(len(a) + 1):] if a else []
        else:
            b = [1] * r.randint(0, len(a))
        pax = r.choice(["in0", "in1", "in1", "out"]) if (dt in DTRANGE and r.random() < 0.2) else None
        x0 = inp(a, qq=pa(a)) if pax == "in0" else inp(a)
        if r.random() < 0.5:
            x1 = inp(b, qq=pa(b)) if pax == "in1" else inp(b)
            layers.append(dict(op=r.choice(["ADD", "SUB", "MUL", "MINIMUM", "MAXIMUM", "SQUARED_DIFFERENCE"]), act=r.choice(["NONE", "RELU", "RELU6"]),
                               q=pa(list(np.broadcast_shapes(tuple(a), tuple(b)))) if pax == "out" else q(), **{"in": [x0, x1]}))
        elif dt != "float32" and dt != "int32":
            layers.append(dict(op=r.choice(["ADD", "SUB", "MUL", "MINIMUM", "MAXIMUM", "SQUARED_DIFFERENCE", "SQUARED_DIFFERENCE"]), act="NONE",
                               q=pa(list(np.broadcast_shapes(tuple(a), tuple(b)))) if pax == "out" else q(),
                               const=dict(shape=b, q=pa(b) if pax == "in1" else (q() or [0.1, 0])),
                               swap=r.random() < 0.5, **{"in": [x0]}))
        else:
            layers.append(dict(op="ADD", act="NONE", q=q(), **{"in": [x0, x0]}))
    elif kind == "unary":
        x0 = inp(_corner_shape(r, big=True))
        op = r.choice(["RELU", "RELU6", "RELU_N1_TO_1", "LOGISTIC", "TANH", "HARD_SWISH", "ABS", "LEAKY_RELU", "EXP", "RSQRT", "QUANTIZE", "SOFTMAX", "PRELU"])
        if op == "PRELU" and (dt not in DTRANGE or len(inputs[0]["shape"]) < 1):
            op = "RELU"
        L = dict(op=op, q=q(), **{"in": [x0]})
        if dt in DTRANGE and r.random() < 0.1:
            if r.random() < 0.5:
                inputs[x0]["q"] = pa(inputs[x0]["shape"])
            else:
                L["q"] = pa(inputs[x0]["shape"])
        if op == "LEAKY_RELU":
            L["alpha"] = r.choice([0.1, 0.0, 1.0, -1.0, 3.5])
        if op == "QUANTIZE":
            L["odtype"] = r.choice(["int8", "uint8", "int16"])
            L["q"] = list(_rand_q(r, L["odtype"]))
        layers.append(L)
    elif kind in ("conv", "dw"):
        N = r.choice([1, 1, 1, 2, 3])
        H, W, C = r.choice(PRIMES[:10]), r.choice(PRIMES[:10]), r.choice([1, 2, 3, 4, 7, 8, 16, 17, 40])
        kh, kw = r.choice([(1, 1), (3, 3), (1, 7), (9, 1), (2, 2), (H, W), (16, 2), (3, 5)])
        sh, sw = r.choice([(1, 1), (2, 2), (3, 3), (4, 4), (1, 4), (5, 1), (2, 3)])
        dh, dw_ = r.choice([(1, 1), (2, 2), (3, 3), (1, 2), (4, 1)])
        pad = r.choice(["SAME", "VALID"])
        if pad == "VALID" and ((kh - 1) * dh + 1 > H or (kw - 1) * dw_ + 1 > W):
            pad = "SAME"
        cdt = dt if dt in ("int8", "uint8", "int16") else r.choice(["int8", "float32"])
        if cdt == "float32":
            x0 = inp([N, H, W, C], "float32", None)
            layers.append(dict(op="CUSTOM", code="FloatConvStandIn", options=[], **{"in": [x0]}))
        else:
            x0 = inp([N, H, W, C], cdt, list(_rand_q(r, cdt)))
            L = dict(op="CONV_2D" if kind == "conv" else "DEPTHWISE_CONV_2D", k=[kh, kw], stride=[sh, sw], dil=[dh, dw_], pad=pad,
                     act=r.choice(["NONE", "RELU", "RELU6", "RELU_N1_TO_1"]), q=list(_rand_q(r, cdt)), per_axis=r.random() < 0.5,
                     wstyle=r.choice(["uniform", "extreme", "const", "small"]), wscale=f32(r.choice([1e-5, 0.01, 0.5, 3.0])), bias=r.random() < 0.7,
                     bmax=r.choice([10, 2000, 2 ** 30]), **{"in": [x0]})
            if kind == "conv":
                L["oc"] = r.choice([1, 2, 3, 8, 17, 64])
                if r.random() < 0.12:
                    w_in = inp([L["oc"], kh, kw, C], "int8" if cdt != "uint8" else "uint8", [0.01, 0])
                    L["w_in"] = w_in
                    L["per_axis"] = False
            else:
                L["mult"] = r.choice([1, 1, 1, 2, 4])
            if cdt == "int16":
                L["bias64"] = r.random() < 0.7
            layers.append(L)
    elif kind == "fc":
        shp = _corner_shape(r, r.choice([1, 2, 2, 3, 4]))
        cdt = dt if dt in ("int8", "uint8", "int16") else "int8"
        x0 = inp(shp, cdt, list(_rand_q(r, cdt)))
        layers.append(dict(op="FULLY_CONNECTED", oc=r.choice([1, 2, 7, 16, 100]), act=r.choice(["NONE", "RELU"]), q=list(_rand_q(r, cdt)),
                           wstyle="uniform", wscale=0.01, bias=r.random() < 0.6, flatten=r.random() < 0.6, keep_dims=r.random() < 0.2, **{"in": [x0]}))
    elif kind == "pool":
        N = r.choice([1, 1, 2])
        H, W, C = r.choice(PRIMES[:11]), r.choice(PRIMES[:11]), r.choice([1, 3, 8, 17])
        kh, kw = r.choice([(1, 1), (2, 2), (H, W), (H, 1), (9, 9), (3, 3), (1, 2)])
        kh, kw = max(1, kh), max(1, kw)
        pad = r.choice(["SAME", "VALID"])
        if pad == "VALID" and (kh > H or kw > W):
            pad = "SAME"
        cdt = dt if dt in DTRANGE else "int8"
        x0 = inp([N, H, W, C], cdt, list(_rand_q(r, cdt)))
        layers.append(dict(op=r.choice(["MAX_POOL_2D", "AVERAGE_POOL_2D"]), k=[kh, kw], stride=list(r.choice([(1, 1), (2, 2), (3, 1), (4, 4), (1, 5)])),
                           pad=pad, act=r.choice(["NONE", "RELU6"]), **{"in": [x0]}))
    elif kind == "shape":
        shp = _corner_shape(r, r.choice([1, 2, 3, 4, 4, 5]))
        x0 = inp(shp)
        n = int(np.prod(shp))
        op = r.choice(["RESHAPE", "CONCATENATION", "PAD", "STRIDED_SLICE", "SPLIT", "PACK", "UNPACK", "TRANSPOSE", "SQUEEZE", "EXPAND_DIMS", "SLICE", "SPLIT_V", "SHAPE"])
        if op == "RESHAPE":
            layers.append(dict(op=op, shape=r.choice([[n], [1, n], [n, 1], [1, 1, 1, n], [1, n, 1, 1], [1, 1, n, 1, 1]]), **{"in": [x0]}))
        elif op == "CONCATENATION":
            layers.append(dict(op=op, axis=r.randrange(len(shp)), q=q(), **{"in": [x0] * r.choice([1, 2, 3])}))
        elif op == "PAD":
            layers.append(dict(op=op, pads=[[r.choice([0, 0, 1, 2]), r.choice([0, 0, 1])] for _ in shp], **{"in": [x0]}))
        elif op == "STRIDED_SLICE":
            b = [r.randrange(s_) for s_ in shp]
            e = [r.randint(bb + 1, s_) for bb, s_ in zip(b, shp)]
            layers.append(dict(op=op, begin=b, end=e, **{"in": [x0]}))
        elif op == "SLICE":
            b = [r.randrange(s_) for s_ in shp]
            layers.append(dict(op=op, begin=b, size=[r.randint(1, s_ - bb) for bb, s_ in zip(b, shp)], **{"in": [x0]}))
        elif op == "SPLIT":
            ax = r.randrange(len(shp))
            divs = [d for d in (1, 2, 3, 5, 7) if shp[ax] % d == 0 and shp[ax] >= d]
            layers.append(dict(op=op, axis=ax, n=r.choice(divs), **{"in": [x0]}))
        elif op == "SPLIT_V":
            ax = r.randrange(len(shp))
            n = r.randint(1, min(3, shp[ax]))
            cuts = sorted(r.sample(range(1, shp[ax]), n - 1))
            layers.append(dict(op=op, axis=ax, sizes=[b_ - a_ for a_, b_ in zip([0] + cuts, cuts + [shp[ax]])], minus1=r.random() < 0.3, **{"in": [x0]}))
        elif op == "SHAPE":
            layers.append(dict(op=op, **{"in": [x0]}))
        elif op == "PACK":
            layers.append(dict(op=op, axis=r.randrange(len(shp) + 1), **{"in": [x0] * r.choice([1, 2, 3])}))
        elif op == "UNPACK":
            ax = r.randrange(len(shp))
            layers.append(dict(op=op, axis=ax, n_out=shp[ax], **{"in": [x0]}))
        elif op == "TRANSPOSE":
            perm = list(range(len(shp)))
            r.shuffle(perm)
            layers.append(dict(op=op, perm=perm, **{"in": [x0]}))
        elif op == "SQUEEZE":
            dims = [i for i, s_ in enumerate(shp) if s_ == 1]
            layers.append(dict(op=op, dims=dims, shape=[s_ for s_ in shp if s_ != 1], **{"in": [x0]}))
        else:
            ax = r.randrange(len(shp) + 1)
            layers.append(dict(op="EXPAND_DIMS", axis=ax, shape=shp[:ax] + [1] + shp[ax:], **{"in": [x0]}))
    elif kind == "mean":
        shp = _corner_shape(r, r.choice([2, 3, 4, 4]), big=True)
        x0 = inp(shp)
        axes = sorted(set(r.randrange(len(shp)) for _ in range(r.choice([1, 1, 2, 3]))))
        if r.random() < 0.25:
            axes = [len(shp) - 1]  # the depth axis alone (the reduction the NPU has no pooling direction for)
        layers.append(dict(op="MEAN", axes=axes, keepdims=r.random() < 0.6, q=q(), **{"in": [x0]}))
    elif kind == "softmax":
        shp = _corner_shape(r, r.choice([1, 2, 3, 4]), big=True)
        cdt = dt if dt in DTRANGE else "int8"
        x0 = inp(shp, cdt, list(_rand_q(r, cdt)))
        layers.append(dict(op="SOFTMAX", beta=r.choice([1.0, 0.1, 10.0, 0.0]), q=list(_act_q(cdt, "SOFTMAX")), **{"in": [x0]}))
    elif kind == "resize":
        N = r.choice([1, 1, 2])
        H, W, C = r.choice(PRIMES[:8]), r.choice(PRIMES[:8]), r.choice([1, 3, 8])
        cdt = dt if dt in DTRANGE else "int8"
        x0 = inp([N, H, W, C], cdt, list(_rand_q(r, cdt)))
        f = r.choice([1, 2, 2, 3, 4, 8])
        ac = r.random() < 0.4
        size_ = r.choice([[H * f, W * f], [(H - 1) * f + 1, (W - 1) * f + 1], [r.randint(1, 20), r.randint(1, 20)], [1, 1], [H, W * 2]])
        layers.append(dict(op=r.choice(["RESIZE_BILINEAR", "RESIZE_NEAREST_NEIGHBOR"]), size=[max(1, size_[0]), max(1, size_[1])], align_corners=ac,
                           half_pixel=(not ac) and r.random() < 0.4, **{"in": [x0]}))
    elif kind == "unsupported":
        shp = _corner_shape(r, r.choice([1, 2, 4]))
        op = r.choice(["FLOOR", "CEIL", "NEG", "SIN", "CAST", "GATHER", "ARG_MAX", "CUSTOM", "DEQUANTIZE"])
        if op in ("FLOOR", "CEIL", "NEG", "SIN"):
            x0 = inp(shp, "float32", None)
            layers.append(dict(op=op, **{"in": [x0]}))
        elif op == "CAST":
            x0 = inp(shp, r.choice(ALL_DT), None)
            layers.append(dict(op=op, odtype=r.choice(ALL_DT), **{"in": [x0]}))
        elif op == "GATHER":
            x0 = inp(shp)
            ax = r.randrange(len(shp))
            layers.append(dict(op=op, axis=ax, indices=[r.randrange(shp[ax]) for _ in range(r.randint(1, 4))], **{"in": [x0]}))
        elif op == "ARG_MAX":
            x0 = inp(shp)
            layers.append(dict(op=op, axis=len(shp) - 1, **{"in": [x0]}))
        elif op == "DEQUANTIZE":
            cdt = dt if dt in DTRANGE else "int8"
            x0 = inp(shp, cdt, list(_rand_q(r, cdt)))
            layers.append(dict(op=op, **{"in": [x0]}))
        else:
            x0 = inp(shp)
            layers.append(dict(op="CUSTOM", code=r.choice(["Vendor", "TFLite_Detection_PostProcess", ""]), options=[r.randrange(256) for _ in range(r.randint(0, 40))],
                               **{"in": [x0]}))
    elif kind == "lstm":
        ldt = dt if dt in ("int8", "int8", "int16", "uint8") else "int8"
        tm = r.random() < 0.5
        shp = [r.choice([1, 1, 2, 3, 5]), r.choice([1, 2, 3, 4]), r.choice([1, 3, 8, 20, 130])]
        if r.random() < 0.1:
            shp = shp[r.choice([0, 1]):] if r.random() < 0.5 else [1] + shp  # not 3D
        x0 = inp(shp, dtype=ldt, qq=list(_rand_q(r, ldt)))
        L = dict(op="LSTM", units=r.choice([1, 2, 7, 16, 33]), q=list(_rand_q(r, ldt)) if r.random() < 0.5 else [f32(1 / 128), 0], time_major=tm,
                 wscale=f32(r.choice([0.002, 0.01])), cell_pow=r.choice([8, 11, 15]), cell_clip=r.choice([0.0, 1.0, 10.0]), **{"in": [x0]})
        twist = r.choice([None, None, "cifg", "peephole", "layer_norm", "rec3d", "n_inputs", "n_intermediates", "state_not_variable", "hidden"])
        if twist in ("cifg", "peephole", "layer_norm", "rec3d", "state_not_variable"):
            L[twist] = True
        elif twist == "n_inputs":
            L["n_inputs"] = r.choice([20, 18])
        elif twist == "n_intermediates":
            L["n_intermediates"] = r.choice([0, 4])
        elif twist == "hidden":
            L["hidden_scale"], L["hidden_zp"] = f32(0.02), 7
        layers.append(L)
    else:  # chain: an ordinary generated network with one corner twist
        rec = gen_recipe(r, profile="mixed")
        return rec
    n_in = len(inputs)
    nvals = n_in + sum(_n_out(L) for L in layers)
    # optionally follow with a plain NPU-friendly op so that the corner sits in the middle of a graph
    outs = list(range(n_in, nvals))
    for L in layers:
        L["seed"] = r.randrange(1 << 30)
        if L["op"] in ("CONCATENATION", "MEAN", "SPLIT", "SPLIT_V", "PACK", "UNPACK", "EXPAND_DIMS", "ARG_MAX", "GATHER") and r.random() < 0.35:
            L["axis_neg"] = True  # the same axis counted from the end
        if L["op"] in ("SPLIT", "SPLIT_V") and r.random() < 0.2:
            L["axis_vec"] = True  # axis stored as a tensor with one element instead of a scalar
    return dict(name="corner", inputs=inputs, layers=layers, outputs=outs, dup_names=r.random() < 0.1)


VERBOSE_FLAGS = ["--verbose-graph", "--verbose-quantization", "--verbose-packing", "--verbose-tensor-purpose", "--verbose-tensor-format",
                 "--verbose-schedule", "--verbose-allocation", "--verbose-high-level-command-stream", "--verbose-register-command-stream",
                 "--verbose-operators", "--verbose-weights", "--verbose-performance", "--verbose-progress", "--verbose-config", "--verbose-all",
                 "--show-cpu-operations", "--timing", "--show-subgraph-io-summary", "--force-symmetric-int-weights", "--enable-debug-db",
                 "--subgraph-output"]


def gen_cli_extras(r):
    out = []
    k = r.choice([0, 0, 1, 2, 4])
    for f in r.sample(VERBOSE_FLAGS, k):
        out.append(f)
    if r.random() < 0.1:
        out += ["--recursion-limit", str(r.choice([1000, 4000, 20000]))]
    return out
