"""Independent hardware constants (trusted base).  Transcribed ONCE from the pinned tree and the public Ethos-U
documentation and frozen: nothing here is imported from /repo at check time, so a change to the compiler's own
architecture tables cannot move the oracle."""

# accelerator -> product (0=U55, 1=U65), macs/cycle per core, cores, ofm micro-block (h,w,d), ifm micro-block (h,w,d),
# SHRAM banks (1 KiB each), bank granules [IFM8, IFM16, IFM8_EW, IFM16_EW, IFM32, ACC16, ACC32, ACC40], elementwise units
ACCEL = {
    "ethos-u55-32": dict(product=0, macs=32, cores=1, ofm_ub=(1, 1, 4), ifm_ub=(1, 1, 8), banks=16, gran=[2, 2, 2, 2, 4, 4, 4, 4]),
    "ethos-u55-64": dict(product=0, macs=64, cores=1, ofm_ub=(1, 1, 8), ifm_ub=(1, 1, 8), banks=16, gran=[2, 2, 2, 2, 4, 4, 4, 8]),
    "ethos-u55-128": dict(product=0, macs=128, cores=1, ofm_ub=(1, 2, 8), ifm_ub=(1, 2, 8), banks=24, gran=[4, 4, 4, 4, 8, 4, 8, 12]),
    "ethos-u55-256": dict(product=0, macs=256, cores=1, ofm_ub=(2, 2, 8), ifm_ub=(2, 2, 8), banks=48, gran=[8, 8, 8, 8, 16, 8, 16, 20]),
    "ethos-u65-256": dict(product=1, macs=256, cores=1, ofm_ub=(2, 2, 8), ifm_ub=(2, 2, 8), banks=48, gran=[8, 8, 8, 8, 16, 8, 16, 20]),
    "ethos-u65-512": dict(product=1, macs=256, cores=2, ofm_ub=(2, 2, 8), ifm_ub=(2, 2, 8), banks=48, gran=[8, 8, 8, 8, 16, 8, 16, 20]),
}
for _k, _v in ACCEL.items():
    _v["name"] = _k
    _v["max_dma"] = 2 if _v["product"] == 1 else 1
    _v["addr_bits"] = 40 if _v["product"] == 1 else 32
    _v["reserved_end_banks"] = 2 if _v["banks"] > 16 else 0      # banks kept for the LUT on 24/48-bank parts
    _v["usable_banks"] = _v["banks"] - _v["reserved_end_banks"]
    _v["lut_bank"] = _v["usable_banks"] if _v["reserved_end_banks"] else _v["usable_banks"] - 2
    _v["lut_addr"] = 1024 * _v["lut_bank"]
    _v["shram_bytes"] = 1024 * _v["banks"]

API_ACCEL = {"Ethos_U55_32": "ethos-u55-32", "Ethos_U55_64": "ethos-u55-64", "Ethos_U55_128": "ethos-u55-128",
             "Ethos_U55_256": "ethos-u55-256", "Ethos_U65_256": "ethos-u65-256", "Ethos_U65_512": "ethos-u65-512"}

MAX_KERNELS = 2
MAX_BLOCKDEP = 3
OFM_BLOCK_MAX = (32, 64, 128)  # h, w, d
SUBKERNEL_MAX = (8, 8)
BANK = 1024
LUT_BYTES = 2048
ARCH_VER = (1, 0, 6)
SHRAM_REGION = 0x103  # internal memory (bit 8) | 3

GR_IFM8, GR_IFM16, GR_IFM8_EW, GR_IFM16_EW, GR_IFM32, GR_ACC16, GR_ACC32, GR_ACC40 = range(8)


def usable_banks(acc, uses_lut):
    a = ACCEL[acc]
    b = a["usable_banks"]
    if uses_lut and a["reserved_end_banks"] == 0:
        b -= 2
    return b


# ---- command encodings --------------------------------------------------------------------------------------------
CMD0 = {
    0x000: "OP_STOP", 0x001: "OP_IRQ", 0x002: "OP_CONV", 0x003: "OP_DEPTHWISE", 0x005: "OP_POOL", 0x006: "OP_ELEMENTWISE",
    0x010: "OP_DMA_START", 0x011: "OP_DMA_WAIT", 0x012: "OP_KERNEL_WAIT", 0x013: "OP_PMU_MASK",
    0x100: "IFM_PAD_TOP", 0x101: "IFM_PAD_LEFT", 0x102: "IFM_PAD_RIGHT", 0x103: "IFM_PAD_BOTTOM", 0x104: "IFM_DEPTH_M1",
    0x105: "IFM_PRECISION", 0x107: "IFM_UPSCALE", 0x109: "IFM_ZERO_POINT", 0x10A: "IFM_WIDTH0_M1", 0x10B: "IFM_HEIGHT0_M1",
    0x10C: "IFM_HEIGHT1_M1", 0x10D: "IFM_IB_END", 0x10F: "IFM_REGION",
    0x111: "OFM_WIDTH_M1", 0x112: "OFM_HEIGHT_M1", 0x113: "OFM_DEPTH_M1", 0x114: "OFM_PRECISION", 0x115: "OFM_BLK_WIDTH_M1",
    0x116: "OFM_BLK_HEIGHT_M1", 0x117: "OFM_BLK_DEPTH_M1", 0x118: "OFM_ZERO_POINT", 0x11A: "OFM_WIDTH0_M1",
    0x11B: "OFM_HEIGHT0_M1", 0x11C: "OFM_HEIGHT1_M1", 0x11F: "OFM_REGION",
    0x120: "KERNEL_WIDTH_M1", 0x121: "KERNEL_HEIGHT_M1", 0x122: "KERNEL_STRIDE", 0x123: "PARALLEL_MODE", 0x124: "ACC_FORMAT",
    0x125: "ACTIVATION", 0x126: "ACTIVATION_MIN", 0x127: "ACTIVATION_MAX", 0x128: "WEIGHT_REGION", 0x129: "SCALE_REGION",
    0x12D: "AB_START", 0x12F: "BLOCKDEP", 0x130: "DMA0_SRC_REGION", 0x131: "DMA0_DST_REGION", 0x132: "DMA0_SIZE0",
    0x133: "DMA0_SIZE1",
    0x180: "IFM2_BROADCAST", 0x181: "IFM2_SCALAR", 0x185: "IFM2_PRECISION", 0x189: "IFM2_ZERO_POINT", 0x18A: "IFM2_WIDTH0_M1",
    0x18B: "IFM2_HEIGHT0_M1", 0x18C: "IFM2_HEIGHT1_M1", 0x18D: "IFM2_IB_START", 0x18F: "IFM2_REGION",
}
CMD1 = {
    0x000: "IFM_BASE0", 0x001: "IFM_BASE1", 0x002: "IFM_BASE2", 0x003: "IFM_BASE3", 0x004: "IFM_STRIDE_X", 0x005: "IFM_STRIDE_Y",
    0x006: "IFM_STRIDE_C", 0x010: "OFM_BASE0", 0x011: "OFM_BASE1", 0x012: "OFM_BASE2", 0x013: "OFM_BASE3", 0x014: "OFM_STRIDE_X",
    0x015: "OFM_STRIDE_Y", 0x016: "OFM_STRIDE_C", 0x020: "WEIGHT_BASE", 0x021: "WEIGHT_LENGTH", 0x022: "SCALE_BASE",
    0x023: "SCALE_LENGTH", 0x024: "OFM_SCALE", 0x025: "OPA_SCALE", 0x026: "OPB_SCALE", 0x030: "DMA0_SRC", 0x031: "DMA0_DST",
    0x032: "DMA0_LEN", 0x033: "DMA0_SKIP0", 0x034: "DMA0_SKIP1", 0x080: "IFM2_BASE0", 0x081: "IFM2_BASE1", 0x082: "IFM2_BASE2",
    0x083: "IFM2_BASE3", 0x084: "IFM2_STRIDE_X", 0x085: "IFM2_STRIDE_Y", 0x086: "IFM2_STRIDE_C", 0x090: "WEIGHT1_BASE",
    0x091: "WEIGHT1_LENGTH", 0x092: "SCALE1_BASE", 0x093: "SCALE1_LENGTH",
}
CMD0_BY_NAME = {v: k for k, v in CMD0.items()}
CMD1_BY_NAME = {v: k for k, v in CMD1.items()}
# cmd1 registers whose payload is an address/stride/length: 32-bit payload | param<<32
ADDR64 = {n for n in CMD1.values() if ("BASE" in n or "STRIDE" in n or n in ("DMA0_SRC", "DMA0_DST", "DMA0_LEN"))}
SIGNED_STRIDES = {n for n in CMD1.values() if "STRIDE" in n}
# registers owned by the DMA unit (separate elision bank in the generator; same register file in hardware)
DMA_REGS = {n for n in list(CMD0.values()) + list(CMD1.values()) if "DMA" in n and not n.startswith("OP_")}

POOL_MODE = {0: "MAX", 1: "AVERAGE", 2: "REDUCE_SUM"}
EW_MODE = {0: "MUL", 1: "ADD", 2: "SUB", 3: "MIN", 4: "MAX", 5: "LRELU", 6: "ABS", 7: "CLZ", 8: "SHR", 9: "SHL"}
EW_UNARY = {"LRELU", "ABS", "CLZ"}
ACC_FORMAT = {0: ("INT_32BIT", 32, GR_ACC32), 1: ("INT_40BIT", 40, GR_ACC40), 2: ("FP_S5_10", 16, GR_ACC16)}
IFM_PREC_BITS = {0: 8, 1: 16, 2: 32}
ROUNDING = {0: "TFL", 1: "TRUNCATE", 2: "NATURAL"}

# driver actions
DA_CONFIG, DA_CMDSTREAM, DA_READAPB, DA_DUMPSHRAM, DA_NOP = 1, 2, 3, 4, 5
FOURCC = int.from_bytes(b"COP1", "little")


def config_word(acc):
    a = ACCEL[acc]
    macs_cc = a["macs"] * a["cores"]
    log2 = macs_cc.bit_length() - 1
    shram_kib = a["cores"] * a["banks"]
    return (log2 & 0xF) | (0 << 4) | ((shram_kib & 0xFF) << 8) | ((a["product"] & 0xF) << 28)


def id_word():
    major, minor, patch = ARCH_VER
    return ((patch & 0xF) << 16) | ((minor & 0xFF) << 20) | ((major & 0xF) << 28)


def _round_up(a, b):
    return -(-a // b) * b


def shram_work_ranges(it, acc):
    """Byte ranges of SHRAM a kernel operation uses as working memory according to its own registers: the two output banks,
    the IFM buffer(s) and - for everything but elementwise - the accumulators [AB_START, AB_START + banks of one double-buffered
    OFM block in the accumulator format).  -> list of (lo, hi) byte ranges."""
    hw = ACCEL[acc]
    out = [(0, 2 * BANK)]
    bits = it.ifm.bits
    if it.kind == "ELEMENTWISE":
        # the operand buffers own the banks the operation declares for them: [2, IFM_IB_END) (IFM2 from IFM2_IB_START inside that
        # range).  An earlier version counted only the banks one double-buffered block needs; the registers, not the block size,
        # are what tells the hardware how far it may stream operands ahead (and what the compiler itself assumes)
        out.append((2 * BANK, max(2, it.ib_end) * BANK))
    else:
        out.append((2 * BANK, max(2, it.ib_end) * BANK))
        out.append((it.ab_start * BANK, (it.ab_start + acc_banks(it, acc)) * BANK))
    return out


def acc_banks(it, acc):
    """banks of the double-buffered accumulators of one OFM block.  Conv1D rule of the 2-row micro-block configurations: an
    operation with OFM height 1 and kernel height 1 accumulates one row although the block height register says 2."""
    hw = ACCEL[acc]
    name, acc_bits, gidx = ACC_FORMAT.get(it.acc_format, ("?", 32, GR_ACC32))
    bh = it.bh
    if it.oh == 1 and it.kh == 1 and hw["ofm_ub"][0] == 2:
        bh = min(bh, 1)
    acc_bytes = bh * it.bw * _round_up(it.bc, 8) * acc_bits // 8
    return _round_up(-(-acc_bytes // 1024) * 2, hw["gran"][gidx])
