"""Loading what was emitted: the output model through the plain flatbuffer parser (verif.fbs)."""
import numpy as np

from . import fbs
from .tflschema import ENUMS

TT_NAME = {v: k for k, v in ENUMS["TensorType"].items()}
TT_NP = {"INT8": np.int8, "UINT8": np.uint8, "INT16": np.int16, "INT32": np.int32, "INT64": np.int64, "FLOAT32": np.float32,
         "BOOL": np.uint8, "FLOAT16": np.float16, "UINT32": np.uint32, "UINT16": np.uint16, "FLOAT64": np.float64}
CUSTOM = ENUMS["BuiltinOperator"]["CUSTOM"]


class Tensor:
    __slots__ = ("idx", "name", "shape", "type", "dtype", "buffer", "data", "scale", "zp", "qdim", "raw", "is_variable", "qmin", "qmax")

    def elems(self):
        return int(np.prod(self.shape)) if len(self.shape) else 1

    def nbytes(self):
        return self.elems() * np.dtype(self.dtype).itemsize

    def const(self):
        """constant data as ndarray of tensor dtype/shape or None"""
        if self.data is None:
            return None
        a = np.frombuffer(self.data, dtype=self.dtype)
        return a.reshape(self.shape) if a.size == self.elems() else a


class Op:
    __slots__ = ("idx", "code", "name", "custom", "version", "inputs", "outputs", "options", "custom_options", "raw", "intermediates")


class Model:
    pass


def load(buf):
    raw = fbs.parse_model(buf)
    m = Model()
    m.raw = raw
    m.description = raw.get("Description")
    sgs = raw.get("Subgraphs") or []
    if len(sgs) < 1:
        raise fbs.ParseError("model has no subgraph")
    sg = sgs[0]
    buffers = raw.get("Buffers") or []
    m.tensors = []
    for i, t in enumerate(sg.get("Tensors") or []):
        T = Tensor()
        T.idx = i
        T.raw = t
        T.name = t.get("Name") or ""
        T.shape = [int(x) for x in (t["Shape"] if t.get("Shape") is not None else [])]
        T.type = TT_NAME.get(t.get("Type", 0), str(t.get("Type")))
        T.dtype = TT_NP.get(T.type, np.uint8)
        T.buffer = t.get("Buffer", 0)
        T.is_variable = bool(t.get("IsVariable", False))
        if T.buffer >= len(buffers):
            raise fbs.ParseError(f"tensor {i} references buffer {T.buffer} of {len(buffers)}")
        d = buffers[T.buffer].get("Data") if T.buffer else None
        T.data = bytes(d) if d is not None and len(d) else None
        q = t.get("Quantization")
        T.qmin = [float(v) for v in q["Min"]] if q is not None and q.get("Min") is not None and len(q["Min"]) else None
        T.qmax = [float(v) for v in q["Max"]] if q is not None and q.get("Max") is not None and len(q["Max"]) else None
        if q is not None and q.get("Scale") is not None and len(q["Scale"]):
            T.scale = [float(s) for s in q["Scale"]]
            T.zp = [int(z) for z in (q["ZeroPoint"] if q.get("ZeroPoint") is not None else [])]
            T.qdim = int(q.get("QuantizedDimension", 0))
        else:
            T.scale, T.zp, T.qdim = None, None, 0
        m.tensors.append(T)
    codes = raw.get("OperatorCodes") or []
    m.ops = []
    for i, o in enumerate(sg.get("Operators") or []):
        O = Op()
        O.idx = i
        O.raw = o
        oc = codes[o.get("OpcodeIndex", 0)]
        O.code = max(oc.get("BuiltinCode", 0), oc.get("DeprecatedBuiltinCode", 0))
        O.custom = oc.get("CustomCode")
        O.version = oc.get("Version", 1)
        O.name = fbs.BUILTIN_BY_CODE.get(O.code, str(O.code)) if O.code != CUSTOM else "CUSTOM:" + str(O.custom)
        O.inputs = [int(x) for x in (o["Inputs"] if o.get("Inputs") is not None else [])]
        O.outputs = [int(x) for x in (o["Outputs"] if o.get("Outputs") is not None else [])]
        for x in O.inputs + O.outputs:
            if x >= len(m.tensors) or x < -1:
                raise fbs.ParseError(f"operator {i} references tensor {x}")
        O.options = o.get("BuiltinOptions")
        O.intermediates = [int(x) for x in (o["Intermediates"] if o.get("Intermediates") is not None else [])]
        co = o.get("CustomOptions")
        O.custom_options = bytes(co) if co is not None else None
        m.ops.append(O)
    m.inputs = [int(x) for x in (sg["Inputs"] if sg.get("Inputs") is not None else [])]
    m.outputs = [int(x) for x in (sg["Outputs"] if sg.get("Outputs") is not None else [])]
    m.metadata = {}
    for md in raw.get("Metadata") or []:
        b = md.get("Buffer", 0)
        d = buffers[b].get("Data") if b < len(buffers) else None
        m.metadata[md.get("Name")] = bytes(d) if d is not None else b""
    m.n_subgraphs = len(sgs)
    return m


def offline_allocation(m):
    """-> list of arena offsets per tensor index (-1 = not in arena) or None when the metadata is absent."""
    d = m.metadata.get("OfflineMemoryAllocation")
    if d is None:
        return None
    a = np.frombuffer(d, dtype=np.int32)
    if len(a) < 3:
        raise fbs.ParseError("OfflineMemoryAllocation metadata too short")
    version, sg_idx, n = int(a[0]), int(a[1]), int(a[2])
    if n != len(a) - 3:
        raise fbs.ParseError(f"OfflineMemoryAllocation declares {n} offsets, {len(a) - 3} present")
    return dict(version=version, subgraph=sg_idx, offsets=[int(x) for x in a[3:]])


def ethosu_ops(m):
    """-> list of dict(op, cs (payload bytes), flash (bytes), scratch_t, fast_t, fm_inputs [tensor idx], outputs [tensor idx])"""
    res = []
    for O in m.ops:
        if O.code == CUSTOM and O.custom == "ethos-u":
            if len(O.inputs) < 4:
                raise fbs.ParseError("ethos-u operator with fewer than 4 inputs")
            cs_t, flash_t, scratch_t, fast_t = (m.tensors[i] for i in O.inputs[:4])
            res.append(dict(op=O, cs=cs_t.data or b"", flash=flash_t.data or b"", cs_t=cs_t, flash_t=flash_t, scratch_t=scratch_t,
                            fast_t=fast_t, fm_inputs=O.inputs[4:], outputs=list(O.outputs)))
    return res
