"""Generic check driver: seeded case batches in a fork pool, violation triage (signature, minimise, replay in a fresh
process, known findings), evidence file."""
import json
import os
import subprocess
import sys
import time

from . import compile as C
from . import seeds

VERIF = C.VERIF
REPLAYS = os.path.join(VERIF, "replays")
# VERIF_EVIDENCE_DIR: where evidence goes when the tree under test is not /repo as committed (seeded-change experiments)
EVIDENCE = os.environ.get("VERIF_EVIDENCE_DIR") or os.path.join(VERIF, "evidence")
KNOWN = os.path.join(VERIF, "known_findings.json")


def load_known():
    if not os.path.exists(KNOWN):
        return []
    return json.load(open(KNOWN))["findings"]


def sig_matches(entry_sig, sig):
    """every key of the recorded signature must be present and equal in the observed one"""
    return all(sig.get(k) == v for k, v in entry_sig.items())


def jsonable(o):
    import numpy as np

    if isinstance(o, dict):
        return {str(k): jsonable(v) for k, v in o.items()}
    if isinstance(o, (set, frozenset)):
        return sorted((jsonable(v) for v in o), key=lambda v: json.dumps(v, sort_keys=True, default=str))
    if isinstance(o, (list, tuple)):
        return [jsonable(v) for v in o]
    if isinstance(o, (np.integer,)):
        return int(o)
    if isinstance(o, (np.floating,)):
        return float(o)
    if isinstance(o, np.ndarray):
        return o.tolist()
    if isinstance(o, bytes):
        return o.hex()
    return o


class Check:
    """Subclass and define: pid, level, rule, gen_case(seed, i, tier) -> desc (JSON-able),
    run_case(desc) -> dict(viol=[{prop,oracle,sig,...}], key=<distinct key>, nontrivial=bool, counters={...}, sample=...),
    optional minimise(desc, sig) -> desc."""

    pid = "C00"
    level = "exploration"
    rule = ""
    quick = dict(cases=200, budget=100, timeout=120)
    thorough = dict(cases=5000, budget=900, timeout=300)
    default_seed = 20260924
    components = {}
    assumptions = []

    def gen_case(self, seed, i, tier):
        raise NotImplementedError

    def run_case(self, desc):
        raise NotImplementedError

    def minimise(self, desc, sig):
        return desc

    def boot(self):
        C.bootstrap()

    def extra_evidence(self, agg):
        return {}

    # ------------------------------------------------------------------ driver
    def own(self, v):
        return v.get("prop") == self.pid

    def main(self, argv):
        import argparse

        ap = argparse.ArgumentParser()
        ap.add_argument("--tier", default=os.environ.get("VERIF_TIER", "quick"))
        ap.add_argument("--replay")
        ap.add_argument("--cases", type=int)
        ap.add_argument("--budget", type=float)
        ap.add_argument("--no-confirm", action="store_true")
        ap.add_argument("--worker", nargs=2, metavar=("IN", "OUT"))
        a = ap.parse_args(argv)
        if a.worker:
            return self.worker_main(a.worker[0], a.worker[1])
        if os.environ.get("VERIF_REPLAY_ENV") == "1":
            self._ballast = [object() for _ in range(int(os.environ.get("VERIF_HEAP", "0")))]  # before the compiler is imported
        self.boot()
        if a.replay:
            return self.do_replay(a.replay)
        tier = "thorough" if a.tier == "thorough" else "quick"
        cfg = dict(self.thorough if tier == "thorough" else self.quick)
        if a.cases:
            cfg["cases"] = a.cases
        if a.budget or os.environ.get("VERIF_BUDGET_S"):
            cfg["budget"] = a.budget or float(os.environ["VERIF_BUDGET_S"])
        seed = seeds.base_seed(self.default_seed)
        print(f"[{self.pid}] tier={tier} seed={seed} cases<={cfg['cases']} budget={cfg['budget']}s workers={C.ForkPool().workers}")
        sys.stdout.flush()
        t0 = time.time()
        descs = [self.gen_case(seed, i, tier) for i in range(cfg["cases"])]
        gen_s = time.time() - t0
        envs = self.interpreters(tier, seed)
        if envs:
            results = self.run_in_interpreters(descs, envs, cfg, t0)
        else:
            pool = C.ForkPool(timeout=cfg["timeout"])
            results = pool.run(self._guarded, descs, deadline=t0 + cfg["budget"])
        if os.environ.get("VERIF_DIGEST_OUT"):
            self.write_digests(os.environ["VERIF_DIGEST_OUT"], descs, results)
        if self.hang_is_violation:
            self.retry_timeouts(descs, results)
        agg = self.aggregate(descs, results)
        agg["gen_s"] = gen_s
        viols = self.triage(agg, confirm=not a.no_confirm)
        wall = time.time() - t0
        self.write_evidence(tier, seed, agg, viols, wall)
        for line in viols["known_lines"]:
            print(line)
        for line in viols["lines"]:
            print(line)
        print(f"[{self.pid}] ran={agg['ran']} nontrivial_distinct={len(agg['distinct'])} inconclusive={agg['inconclusive']} "
              f"violations={len(viols['lines'])} known={len(viols['known_lines'])} wall={wall:.1f}s")
        if agg["ran"] < max(1, min(cfg["cases"], cfg.get("min_cases", 1))):
            print(f"[{self.pid}] ERROR: too few cases completed")
            return 2
        return 1 if viols["lines"] else 0

    def _guarded(self, desc):
        return self.run_case(desc)

    def write_digests(self, path, descs, results):
        """Determinism self-test support: one line per case - digest of the case description and of everything its execution
        produced (outcome, violations with all details, counters, evaluations).  Wall-clock cuts are 'cut', not digests."""
        rows = []
        for d, r in zip(descs, results):
            dd = seeds.digest(jsonable({k: v for k, v in d.items() if k != "env"}) if isinstance(d, dict) else repr(d))
            if r is None or r[0] in ("timeout", "died"):
                rows.append([dd, "cut"])
            elif r[0] != "ok":
                rows.append([dd, "exc:" + seeds.digest(str(r[1])[:300])])
            else:
                val = r[1]
                body = dict(outcome=val.get("outcome"), key=val.get("key"), evaluations=val.get("evaluations"), nontrivial=bool(val.get("nontrivial")),
                            viol=sorted(json.dumps(jsonable(v), sort_keys=True, default=str) for v in (val.get("viol") or [])),
                            counters={k: v for k, v in (val.get("counters") or {}).items() if not k.startswith("interp_")})
                rows.append([dd, seeds.digest(jsonable(body))])
        with open(path, "w") as f:
            json.dump(rows, f)

    # ---- several interpreters (World P seams that are fixed at interpreter start: hash seed, heap layout)
    def interpreters(self, tier, seed):
        """-> list of dict(PYTHONHASHSEED=int, heap=int) or None to run in this interpreter only."""
        return None

    def run_in_interpreters(self, descs, envs, cfg, t0):
        import pickle
        import tempfile

        n = len(envs)
        workers = max(1, C.ForkPool().workers // n)
        tmpd = tempfile.mkdtemp(prefix="verif-w-")
        procs = []
        for k, env in enumerate(envs):
            idx = list(range(k, len(descs), n))
            for i in idx:
                if isinstance(descs[i], dict):
                    descs[i]["env"] = dict(env)  # the replay file carries the interpreter seams
            fin, fout = os.path.join(tmpd, f"in{k}.pkl"), os.path.join(tmpd, f"out{k}.pkl")
            with open(fin, "wb") as f:
                pickle.dump(dict(descs=[descs[i] for i in idx], env=env, timeout=cfg["timeout"], deadline=t0 + cfg["budget"], workers=workers), f)
            e = dict(os.environ, PYTHONHASHSEED=str(env["PYTHONHASHSEED"]), VERIF_NO_REEXEC="1", VERIF_HEAP=str(env.get("heap", 0)),
                     VERIF_ENV_JSON=json.dumps(env))
            cmd = ["setarch", "x86_64", "-R", sys.executable, os.path.join(VERIF, "vcheck"), self.reg_name(), "--worker", fin, fout]
            procs.append((idx, fout, subprocess.Popen(cmd, env=e, stdout=subprocess.PIPE, stderr=subprocess.STDOUT, text=True), env))
        results = [None] * len(descs)
        for idx, fout, p, env in procs:
            try:
                out, _ = p.communicate(timeout=cfg["budget"] + cfg["timeout"] + 120)
            except subprocess.TimeoutExpired:
                p.kill()
                out = "worker timeout"
            if os.path.exists(fout):
                with open(fout, "rb") as f:
                    res = pickle.load(f)
                for i, r_ in zip(idx, res):
                    if r_ is not None and r_[0] == "ok" and isinstance(r_[1], dict):
                        r_[1].setdefault("counters", {})["interp_hashseed_%s_heap_%s" % (env["PYTHONHASHSEED"], env.get("heap", 0))] = 1
                    results[i] = r_
            else:
                for i in idx:
                    results[i] = ("died", "worker interpreter produced no result: " + (out or "")[-300:])
        import shutil

        shutil.rmtree(tmpd, ignore_errors=True)
        return results

    def reg_name(self):
        return self.pid

    def worker_main(self, fin, fout):
        import pickle

        heap = int(os.environ.get("VERIF_HEAP", "0"))
        self._ballast = [object() for _ in range(heap)]  # seeded heap perturbation before the compiler is imported
        job = pickle.load(open(fin, "rb"))
        self.boot()
        pool = C.ForkPool(workers=job["workers"], timeout=job["timeout"])
        res = pool.run(self._guarded, job["descs"], deadline=job["deadline"])
        with open(fout, "wb") as f:
            pickle.dump(res, f)
        return 0

    # ---- liveness: a case that hit the per-case wall limit is run once more, alone, with a far larger limit; only if it exceeds
    # that too it counts as "does not terminate" (checks whose property demands termination set hang_is_violation)
    hang_is_violation = False
    hang_timeout = float(os.environ.get("VERIF_HANG_TIMEOUT_S", 400))

    def retry_timeouts(self, descs, results, limit=3):
        n = 0
        for i, r in enumerate(results):
            if r is None or r[0] != "timeout" or n >= limit:
                continue
            n += 1
            pool = C.ForkPool(workers=1, timeout=self.hang_timeout)
            (st, val), = pool.run(self._guarded, [descs[i]])
            if st == "timeout":
                results[i] = ("ok", dict(viol=[dict(prop=self.pid, oracle="does_not_terminate", bound_s=self.hang_timeout, sig=dict(oracle="does_not_terminate"))],
                                         counters=dict(hang_retries=1), key=None, nontrivial=False, evaluations=1, outcome="does_not_terminate"))
            else:
                results[i] = (st, val)

    def aggregate(self, descs, results):
        agg = dict(ran=0, inconclusive=0, inconclusive_kinds={}, distinct=set(), counters={}, samples=[], viol=[], evaluations=0,
                   outcomes={})
        for desc, res in zip(descs, results):
            if res is None:
                continue
            st, val = res
            if st != "ok":
                agg["inconclusive"] += 1
                k = st if st != "exc" else "harness_exception:" + val.strip().splitlines()[-1][:100]
                agg["inconclusive_kinds"][k] = agg["inconclusive_kinds"].get(k, 0) + 1
                if st == "exc" and len(agg.setdefault("harness_tracebacks", [])) < 3:
                    agg["harness_tracebacks"].append(val[-1500:])
                continue
            agg["ran"] += 1
            agg["evaluations"] += val.get("evaluations", 1)
            if val.get("nontrivial") and val.get("key") is not None:
                agg["distinct"].add(val["key"])
            for k, v in (val.get("counters") or {}).items():
                if isinstance(v, (int, float)):
                    agg["counters"][k] = agg["counters"].get(k, 0) + v
                elif isinstance(v, dict):
                    d = agg["counters"].setdefault(k, {})
                    for kk, vv in v.items():
                        d[kk] = d.get(kk, 0) + vv
            if val.get("outcome"):
                agg["outcomes"][val["outcome"]] = agg["outcomes"].get(val["outcome"], 0) + 1
            if val.get("sample") is not None and len(agg["samples"]) < 3 and val.get("nontrivial"):
                agg["samples"].append(val["sample"])
            for v in val.get("viol") or []:
                agg["viol"].append((desc, v))
        return agg

    def signature(self, v):
        return v.get("sig") or dict(oracle=v.get("oracle"))

    def case_layers(self, desc):
        """context of a case used to recognise a recorded finding (layer kinds of the recipe / op kinds of the program)"""
        try:
            out = []
            for L in desc["recipe"]["layers"]:
                out.append(L["op"])
                if L.get("act") not in (None, "NONE"):
                    out.append("FUSED_" + L["act"])
                if L.get("stride") and max(L["stride"]) >= 2 and L["op"] != "TRANSPOSE_CONV":
                    out.append("STRIDE_GE2")
            opts = desc.get("opts") or []
            if "--tensor-allocator" in opts:
                out.append("OPT_ALLOC_" + str(opts[opts.index("--tensor-allocator") + 1]))
            return out
        except Exception:
            return []

    def known_match(self, known, sig, desc):
        layers = set(self.case_layers(desc))
        for k in known:
            if k.get("status", "known") != "known" or not sig_matches(k["signature"], sig):
                continue
            if not set(k.get("requires_layers", [])) <= layers:
                continue
            if k.get("requires_any") and not (set(k["requires_any"]) & layers):
                continue
            if k.get("kind_any") and sig.get("kind") not in k["kind_any"]:
                continue
            if k.get("requires_any2") and not (set(k["requires_any2"]) & layers):
                continue
            if k.get("min_count") and sum(1 for x in self.case_layers(desc) if x in k["min_count"]["of"]) < k["min_count"]["n"]:
                continue
            if k.get("max_layers") is not None and sum(1 for x in self.case_layers(desc) if not x.startswith(("FUSED_", "OPT_")) and x != "STRIDE_GE2") > k["max_layers"]:
                continue
            return k
        return None

    def triage(self, agg, confirm=True):
        known = [k for k in load_known() if k["property"] == self.pid]
        out = dict(lines=[], known_lines=[], records=[], other_props={})
        seen = {}
        for desc, v in agg["viol"]:
            if not self.own(v):
                k = f"{v.get('prop')}:{v.get('oracle')}"
                out["other_props"][k] = out["other_props"].get(k, 0) + 1
                continue
            sig = self.signature(v)
            key = json.dumps(sig, sort_keys=True)
            seen.setdefault(key, []).append((desc, v, sig))
        os.makedirs(REPLAYS, exist_ok=True)
        t0 = time.time()
        reported = set()
        for key, occ in sorted(seen.items()):
            # pick a few occurrences per signature: first those no recorded finding could explain, then one per finding
            fresh = [o for o in occ if self.known_match([dict(k, max_layers=None) for k in known], o[2], o[0]) is None]
            chosen = fresh[:3]
            ids = set()
            for o in occ:
                k = self.known_match([dict(k, max_layers=None) for k in known], o[2], o[0])
                if k is not None and k["id"] not in ids and len(ids) < 3:
                    ids.add(k["id"])
                    chosen.append(o)
            for desc, v, sig in chosen:
                budget_left = 150 - (time.time() - t0)
                desc_min = desc
                if budget_left > 0:
                    try:
                        desc_min = self.minimise(desc, sig)
                    except Exception:
                        desc_min = desc
                kf = self.known_match(known, sig, desc_min)
                tag = kf["id"] if kf else seeds.digest([sig, self.case_layers(desc_min)])
                if (key, tag) in reported:
                    continue
                reported.add((key, tag))
                name = f"{self.pid}-{seeds.digest([sig, tag])}.json"
                path = os.path.join(REPLAYS, name)
                rec = dict(property=self.pid, signature=sig, violation=jsonable(v), case=jsonable(desc_min), occurrences=len(occ),
                           original_case=jsonable(desc) if desc_min is not desc else None)
                with open(path, "w") as f:
                    json.dump(rec, f, indent=1, sort_keys=True)
                confirmed = self.confirm(path) if confirm else True
                rec["confirmed"] = confirmed
                rec["known"] = kf["id"] if kf else None
                out["records"].append(rec)
                if not confirmed:
                    agg["inconclusive"] += 1
                    agg["inconclusive_kinds"]["violation_did_not_replay"] = agg["inconclusive_kinds"].get("violation_did_not_replay", 0) + 1
                    continue
                if kf is not None:
                    out["known_lines"].append(f"KNOWN-FINDING: property={self.pid} {kf['id']}: {kf['what']} (signature seen {len(occ)}x, replay={path})")
                else:
                    out["lines"].append(f"VIOLATION property={self.pid} replay={path}")
                    print(f"[{self.pid}] violation {json.dumps(sig, sort_keys=True)} layers={self.case_layers(desc_min)} "
                          f"detail={json.dumps(jsonable(v), sort_keys=True)[:500]}")
        return out

    def minimise_in_pool(self, desc, sig):
        return self.minimise(desc, sig)

    def still_fails(self, desc, sig, timeout=120):
        """Run one case in a fresh fork and report whether a violation with the same signature shows up."""
        hang = sig.get("oracle") == "does_not_terminate"
        pool = C.ForkPool(workers=1, timeout=self.hang_timeout if hang else timeout)
        (st, val), = pool.run(self._guarded, [desc])
        if hang:
            return st == "timeout"
        if st != "ok":
            return False
        return any(self.own(v) and self.signature(v) == sig for v in val.get("viol") or [])

    def confirm(self, path):
        """Replay in a fresh interpreter; the violation must reproduce exactly (same signature)."""
        cmd = [sys.executable, os.path.join(VERIF, "vcheck"), self.pid, "--replay", path]
        try:
            p = subprocess.run(cmd, stdout=subprocess.PIPE, stderr=subprocess.STDOUT, text=True, timeout=600 + self.hang_timeout,
                               env=dict(os.environ, PYTHONHASHSEED="0"))
        except subprocess.TimeoutExpired:
            return False
        return p.returncode == 1 and "REPLAY-REPRODUCED" in p.stdout

    def do_replay(self, path):
        rec = json.load(open(path))
        desc = rec["case"]
        sig = rec["signature"]
        env = desc.get("env") if isinstance(desc, dict) else None
        if env and os.environ.get("VERIF_REPLAY_ENV") != "1":
            # re-create the interpreter seams of the failing run: hash seed, ASLR off, heap perturbation
            e = dict(os.environ, PYTHONHASHSEED=str(env["PYTHONHASHSEED"]), VERIF_NO_REEXEC="1", VERIF_HEAP=str(env.get("heap", 0)), VERIF_REPLAY_ENV="1",
                     VERIF_ENV_JSON=json.dumps(env))
            p = subprocess.run(["setarch", "x86_64", "-R", sys.executable, os.path.join(VERIF, "vcheck"), self.reg_name(), "--replay", path], env=e)
            return p.returncode
        hang = sig.get("oracle") == "does_not_terminate"
        pool = C.ForkPool(workers=1, timeout=self.hang_timeout if hang else 600)
        (st, val), = pool.run(self._guarded, [desc])
        if hang:
            if st == "timeout":
                print(f"REPLAY-REPRODUCED property={self.pid} signature={json.dumps(sig, sort_keys=True)}")
                print(json.dumps(dict(oracle="does_not_terminate", bound_s=self.hang_timeout)))
                print(f"VIOLATION property={self.pid} replay={path}")
                return 1
            print(f"REPLAY-NOT-REPRODUCED property={self.pid}; the case terminated ({st})")
            return 0
        if st != "ok":
            print(f"REPLAY-HARNESS-ERROR {st}: {str(val)[-800:]}")
            return 2
        hits = [v for v in val.get("viol") or [] if self.own(v) and self.signature(v) == sig]
        if hits:
            print(f"REPLAY-REPRODUCED property={self.pid} signature={json.dumps(sig, sort_keys=True)}")
            print(json.dumps(jsonable(hits[0]), sort_keys=True)[:2000])
            print(f"VIOLATION property={self.pid} replay={path}")
            return 1
        print(f"REPLAY-NOT-REPRODUCED property={self.pid}; violations now: "
              f"{[self.signature(v) for v in (val.get('viol') or [])][:5]}")
        return 0

    def write_evidence(self, tier, seed, agg, viols, wall):
        os.makedirs(EVIDENCE, exist_ok=True)
        cov = dict(
            evaluations=int(agg["evaluations"]),
            distinct_nontrivial=len(agg["distinct"]),
            rule=self.rule,
            samples=jsonable(agg["samples"]) or [{"note": "no non-trivial case completed"}],
            cases_completed=agg["ran"],
            runs_per_hour=round(agg["evaluations"] / max(wall, 1e-3) * 3600),
            counters=jsonable(agg["counters"]),
            outcomes=agg["outcomes"],
            inconclusive=agg["inconclusive"],
            inconclusive_kinds=agg["inconclusive_kinds"],
            components=self.components,
            other_property_observations=viols["other_props"],
            known_findings_hit=[ln.split(" ")[2] for ln in viols["known_lines"]],
            violation_records=[dict(signature=r["signature"], confirmed=r["confirmed"], occurrences=r["occurrences"], known=r.get("known")) for r in viols["records"]],
        )
        if agg.get("harness_tracebacks"):
            cov["harness_tracebacks"] = agg["harness_tracebacks"]
        cov.update(self.extra_evidence(agg))
        ev = dict(property_id=self.pid, tier=tier, seed=int(seed), level=self.level, coverage=cov, assumptions=self.assumptions,
                  wall_s=round(wall, 2), violations=len(viols["lines"]))
        with open(os.path.join(EVIDENCE, f"{self.pid}.json"), "w") as f:
            json.dump(ev, f, indent=1, sort_keys=True)
