def get(pid):
    from . import checks_net, checks_p, checks_api, checks_val

    table = {
        "C01": checks_val.C01,
        "C08": checks_val.C08,
        "C10": checks_val.C10,
        "C02": checks_net.C02,
        "C03": checks_net.C03,
        "C04net": checks_net.C04net,
        "C04": checks_api.C04,
        "C06": checks_api.C06,
        "C15": checks_api.C15,
        "C17": checks_api.C17,
        "C12": checks_net.C12,
        "C11": checks_net.C11,
        "C13": checks_p.C13,
        "C14": checks_p.C14,
        "C18": checks_p.C18,
    }
    return table[pid]()
