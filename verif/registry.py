def get(pid):
    from . import checks_net, checks_p

    table = {
        "C02": checks_net.C02,
        "C03": checks_net.C03,
        "C04net": checks_net.C04net,
        "C04": checks_net.C04net,
        "C12": checks_net.C12,
        "C13": checks_p.C13,
        "C14": checks_p.C14,
        "C18": checks_p.C18,
    }
    return table[pid]()
