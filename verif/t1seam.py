"""T1 seam: what the compiler itself believes each emitted NPU operation is.

The wrapper sits on ``high_level_command_to_npu_op.generate_register_command_stream_for_sg`` (called through the module attribute
by compiler_driver, so replacing the attribute is enough - no hook in /repo).  The real function runs unchanged; after it returned
the wrapper walks ``sg.high_level_command_stream`` and records, per command that becomes an NPU operation and in emission order,

* for a stripe: the identity (equivalence id -> small integer, name) of its IFM / IFM2 / OFM tensors, the IFM and OFM boxes, the
  padding handed on, and the facts of the source operator needed to recompute the receptive field independently (kernel, stride,
  dilation, original padding / skirt, upscaling, read and write offsets, full IFM / OFM shapes);
* for a DMA: the identity of its source and destination tensors.

The recorded list is keyed by the subgraph name; the i-th kernel/DMA operation of the emitted stream "<name>_command_stream" is the
i-th record (the register generator emits exactly one NPU_OP per list entry, waits are extra).  When the count does not match the
stream, or the seam could not be installed, consumers fall back to T0 (stream only) and count it.
"""
import sys

MOD = "ethosu.vela.high_level_command_to_npu_op"


def _ints(x):
    return [int(v) for v in x] if x is not None else None


class StripeSeam:
    def __init__(self):
        self.available = False
        self.records = {}
        self.errors = []
        self._orig = None
        self._eids = {}

    # ---- identity
    def _tid(self, t):
        if t is None:
            return None
        k = getattr(t, "equivalence_id", None)
        if k is None:
            k = ("obj", id(t))
        if k not in self._eids:
            self._eids[k] = len(self._eids) + 1
        return [self._eids[k], str(t.name)]

    def _shape4(self, s):
        if s is None:
            return None
        try:
            return _ints(s.as_list())
        except AttributeError:
            return _ints(s)

    def _record_sg(self, sg):
        from ethosu.vela.high_level_command_stream import NpuStripe, DMA, NOP
        from ethosu.vela.operation import NpuBlockType

        recs = []
        ps_ids = {}
        sg_outputs = list(getattr(sg, "output_tensors", []) or [])
        for cmd in sg.high_level_command_stream:
            if isinstance(cmd, NOP):
                continue
            if isinstance(cmd, NpuStripe):
                if cmd.ps.npu_block_type == NpuBlockType.Default:
                    continue
                ps = cmd.ps
                op = ps.primary_op
                pid = ps_ids.setdefault(id(ps), len(ps_ids))
                k = op.kernel
                r = dict(k="s", ps=pid, op=str(op.type).replace("Op.", ""), name=str(op.name), bt=str(ps.npu_block_type).split(".")[-1],
                         ifm=self._tid(cmd.ifm_tensor), ifm2=self._tid(cmd.ifm2_tensor), ofm=self._tid(cmd.ofm_tensor),
                         ifm_box=[_ints(cmd.ifm_box.start_coord), _ints(cmd.ifm_box.end_coord)] if cmd.ifm_box is not None else None,
                         ifm2_box=[_ints(cmd.ifm2_box.start_coord), _ints(cmd.ifm2_box.end_coord)] if cmd.ifm2_box is not None else None,
                         ofm_box=[_ints(cmd.ofm_box.start_coord), _ints(cmd.ofm_box.end_coord)],
                         pad_top=int(cmd.pad_top), pad_bottom=int(cmd.pad_bottom),
                         kernel=dict(h=int(k.height), w=int(k.width), sy=int(k.stride.y), sx=int(k.stride.x), dy=int(k.dilation.y), dx=int(k.dilation.x)),
                         ifm_shape=self._shape4(op.ifm_shapes[0]) if op.ifm_shapes else None,
                         ofm_shape=self._shape4(op.ofm_shapes[0]) if op.ofm_shapes else None,
                         read_offset=self._shape4(op.read_offsets[0]) if op.read_offsets and op.read_offsets[0] is not None else None,
                         read_shape=self._shape4(op.read_shapes[0]) if op.read_shapes and op.read_shapes[0] is not None else None,
                         write_offset=self._shape4(op.write_offset) if op.write_offset is not None else None,
                         write_shape=self._shape4(op.write_shape) if op.write_shape is not None else None,
                         resampling=str(getattr(op, "ifm_resampling_mode", "")).split(".")[-1],
                         skirt=_ints(op.attrs.get("skirt")) if op.attrs.get("skirt") is not None else None,
                         explicit_padding=_ints(op.attrs.get("explicit_padding")) if op.attrs.get("explicit_padding") is not None else None,
                         first=bool(cmd.is_first_h_stripe), last=bool(cmd.is_last_h_stripe),
                         ofm_leaves_stream=bool(cmd.ofm_tensor in sg_outputs))
                recs.append(r)
            elif isinstance(cmd, DMA):
                recs.append(dict(k="d", src=self._tid(cmd.in_tensor), dst=self._tid(cmd.out_tensor)))
        return recs

    def install(self):
        try:
            mod = sys.modules.get(MOD)
            if mod is None:
                import importlib
                mod = importlib.import_module(MOD)
            orig = mod.generate_register_command_stream_for_sg
        except Exception as ex:  # seam unavailable: T0 only
            self.errors.append(repr(ex)[:200])
            return self
        seam = self

        def wrapper(nng, sg, arch, verbose=False):
            ret = orig(nng, sg, arch, verbose)
            # recorded after the conversion: it may still swap the two inputs of a binary elementwise command
            try:
                seam.records[str(sg.name)] = seam._record_sg(sg)
            except Exception as ex:  # an internal attribute moved: degrade, never disturb the compilation
                seam.errors.append(repr(ex)[:200])
                seam.records.pop(str(sg.name), None)
            return ret

        self._orig = (mod, orig)
        mod.generate_register_command_stream_for_sg = wrapper
        self.available = True
        return self

    def remove(self):
        if self._orig is not None:
            self._orig[0].generate_register_command_stream_for_sg = self._orig[1]
            self._orig = None

    def result(self):
        return dict(available=self.available, records=self.records, errors=self.errors)


def attach(plan, t1):
    """Attach the recorded per-operation facts to the programs of an output model.  ent['t1'] = list aligned with prep.prog (None
    for waits) or None when unavailable / inconsistent.  -> (number of streams attached, number of streams)"""
    n_ok = 0
    for ent in plan.programs.values():
        ent["t1"] = None
        if not t1 or not t1.get("available") or ent.get("prep") is None:
            continue
        name = ent["e"]["cs_t"].name
        if not name.endswith("_command_stream"):
            continue
        recs = t1["records"].get(name[:-len("_command_stream")])
        if recs is None:
            continue
        prog = ent["prep"].prog
        ops = [it for it in prog if getattr(it, "is_kernel", False) or type(it).__name__ == "DmaOp"]
        if len(ops) != len(recs):
            continue
        if any((r["k"] == "s") != bool(getattr(it, "is_kernel", False)) for it, r in zip(ops, recs)):
            continue
        al = [None] * len(prog)
        for it, r in zip(ops, recs):
            al[it.idx] = r
        ent["t1"] = al
        n_ok += 1
    return n_ok, len(plan.programs)
