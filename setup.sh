#!/bin/sh
# Offline setup: build the mlw_codec extension from /repo's current sources into /verif/.build and the vendored decoder.
set -e
cd "$(dirname "$0")"
/venv/bin/python -c "import sys; sys.path.insert(0,'.'); from verif import compile as C; print('codec:', C.ensure_codec()); from verif.npu import wdecode; wdecode.lib(); print('vendored decoder: ok')"
