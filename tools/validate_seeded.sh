#!/bin/sh
# usage: validate_seeded.sh <name> <dir with patch.diff demo.py meta.json>
# Confirms, in a fresh scratch worktree of /repo HEAD: demo passes on the original, fails with the patch, baseline tests still pass.
set -u
NAME=$1; SRC=$2
WT=/tmp/wt/val_$NAME
git -C /repo worktree remove --force $WT 2>/dev/null
git -C /repo worktree add -q --detach $WT HEAD || exit 2
cp /verif/.build/codec-*/mlw_codec.cpython-312-x86_64-linux-gnu.so $WT/ethosu/ 
sed "s#/tmp/wt/${NAME}_out#$SRC#g; s#/tmp/wt/${NAME}#$WT#g" $SRC/demo.py > $WT/_demo.py
cd $WT
PYTHONPATH=$WT timeout 900 /venv/bin/python _demo.py > $SRC/demo_orig.out 2>&1; R0=$?
git apply $SRC/patch.diff || { echo "patch does not apply"; exit 2; }
if ls ethosu/mlw_codec/*.c >/dev/null 2>&1 && git diff --name-only | grep -q mlw_codec; then echo "NOTE: C sources changed - rebuild needed"; fi
PYTHONPATH=$WT timeout 900 /venv/bin/python _demo.py > $SRC/demo_patched.out 2>&1; R1=$?
VERIF_REPO=$WT /venv/bin/python /verif/tools/baseline_check.py > $SRC/baseline_patched.out 2>&1; RB=$?
echo "$NAME: demo_orig_rc=$R0 ($(tail -1 $SRC/demo_orig.out | cut -c1-80)) demo_patched_rc=$R1 ($(tail -1 $SRC/demo_patched.out | cut -c1-100)) baseline_rc=$RB ($(head -1 $SRC/baseline_patched.out))"
cd /; git -C /repo worktree remove --force $WT
