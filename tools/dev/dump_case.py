import sys,json; sys.path.insert(0,'/verif')
from verif import compile as C, netsim, debug, netgen
C.bootstrap()
rec=json.load(open(sys.argv[1]))['case']
ONLY=int(sys.argv[2]) if len(sys.argv)>2 else None
def task(_):
    res=netsim.run_recipe(rec['recipe'],rec['opts'],rec['seed'],2,False)
    print(res['status'])
    print(debug.dump_model(res['model'],res['plan'].offsets))
    for oi,ent in res['plan'].programs.items():
        if ONLY is not None and oi!=ONLY: continue
        print('--- ethos-u op',oi,'uid_base',ent['uid_base']); print(debug.dump_program(ent['prep'].prog))
    for v in res['viol'][:8]: print(v)
    print('dead',res['dead_stores'][:3])
print(C.ForkPool(1,timeout=300).run(task,[0])[0][0])
