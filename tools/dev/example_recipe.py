import sys,json; sys.path.insert(0,'/verif')
import numpy as np
from verif import compile as C, netsim, netgen, checks_val, artefact, runtime
C.bootstrap()
def task(a):
    tail,acc=a
    layers=[dict(op='STRIDED_SLICE',begin=[0,1,1,4],end=[1,5,6,20],seed=1,**{'in':[0]}),
            dict(op='STRIDED_SLICE',begin=[0,1,2,3],end=[1,3,4,11],seed=2,**{'in':[1]})]
    if tail=='conv':
        layers.append(dict(op='CONV_2D',k=[1,1],oc=8,stride=[1,1],dil=[1,1],pad='SAME',act='NONE',q=[0.15,-43],per_axis=False,wstyle='uniform',wscale=0.01,bias=True,seed=5,**{'in':[2]}))
    elif tail=='relu':
        layers.append(dict(op='RELU',seed=5,**{'in':[2]}))
    elif tail=='add':
        layers.append(dict(op='ADD',act='NONE',q=[0.2,3],seed=5,**{'in':[2,2]}))
    rec=dict(name='n',inputs=[dict(shape=[1,6,7,24],dtype='int8',q=[0.1,3])],layers=layers,outputs=[len(layers)])
    try: src=netgen.build_bytes(rec)
    except Exception as e: return (a,'build',repr(e))
    opts=['--accelerator-config',acc]
    cr=netsim.compile_bytes(src,opts)
    if cr['out_bytes'] is None: return (a,'nocompile',cr['exc_type'])
    vc=checks_val.value_compare(src,cr['out_bytes'],opts,1,1)
    return (a,vc['status'],[ (m['oracle'],m.get('max_abs_diff'),str(m.get('msg'))[:100]) for m in vc['mismatches']])
for r in C.ForkPool(8,timeout=100).run(task,[(t,'ethos-u55-128') for t in ('conv','relu','add','none')]): print(r)
