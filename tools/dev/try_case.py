"""usage: try_case.py <check id> <replay-or-case.json> [python expression editing `c` (the case dict)] - runs one (edited) case of a check
and prints its violations; e.g.  try_case.py C01 replays/x.json "c['recipe']['layers'].pop()" """
import sys, json; sys.path.insert(0, '/verif')
from verif import compile as C, registry
chk = registry.get(sys.argv[1]); chk.boot()
rec = json.load(open(sys.argv[2])); c = rec.get('case', rec)
for e in sys.argv[3:]:
    exec(e)
def task(_):
    return chk.run_case(c)
st, val = C.ForkPool(1, timeout=600).run(task, [0])[0]
if st != 'ok':
    print(st, str(val)[-1500:])
else:
    print('outcome', val.get('outcome'), 'counters', val.get('counters'))
    for v in val.get('viol') or []:
        print(' VIOL', json.dumps(check_json(v) if False else {k: (x if isinstance(x, (int, float, str, list, dict, type(None), bool)) else str(x)) for k, x in v.items()}, default=str)[:600])
if '--dump' in sys.argv:
    print(json.dumps(c, indent=1))
