import sys,json; sys.path.insert(0,'/verif')
import numpy as np
from verif import compile as C, netsim, netgen, artefact, runtime, refint, checks_val
C.bootstrap()
rec=json.load(open(sys.argv[1]))['case']
def task(_):
    src=netgen.build_bytes(rec['recipe']); cr=netsim.compile_bytes(src,rec['opts'])
    om=artefact.load(cr['out_bytes']); sm=artefact.load(src)
    plan=runtime.Plan(om,netsim.acc_of(rec['opts']),netsim.is_spilling(rec['opts']))
    xs=checks_val.gen_inputs(sm,rec['seed'],1)[0]
    ref,tol=refint.run(sm,dict(zip(sm.inputs,xs))); outs=runtime.ValueRun(plan,1).run(xs)
    for k,o in enumerate(sm.outputs):
        a=ref[o].reshape(-1); b=outs[k].astype(np.int64).reshape(-1)
        print('tol',tol.get(o),'shape',ref[o].shape); print('ref',a[:40]); print('npu',b[:40])
    # intermediate
    for ti,v in ref.items():
        if ti not in sm.inputs and sm.tensors[ti].data is None: print(ti, sm.tensors[ti].name, np.asarray(v).reshape(-1)[:24])
C.ForkPool(1,timeout=100).run(task,[0])
