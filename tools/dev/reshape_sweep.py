"""One-off sweep for the 'rewrite after a bypassed reshape' class: every generator family as a 1-2 layer network with a RESHAPE
(or another memory-only operator) appended / prepended, run through the C03, C01 and C13 case runners.
usage: reshape_sweep.py <n per family> [seed]"""
import sys, json, random, collections; sys.path.insert(0, '/verif')
from verif import compile as C, netgen, registry
C.bootstrap()
N = int(sys.argv[1]); seed0 = int(sys.argv[2]) if len(sys.argv) > 2 else 0
descs = []
for fam in netgen.FAMILIES:
    if fam in ("cpu",):
        continue
    for i in range(N):
        r = random.Random(hash((fam, i, seed0)) & 0xFFFFFF)
        cfg = netgen.swarm_config(r, 'value'); cfg['fams'] = [fam]; cfg['depth'] = r.choice([1, 1, 2]); cfg['dtype'] = r.choice(['int8', 'int8', 'uint8', 'int16']); cfg['branch_p'] = 0.0
        rec = netgen.gen_recipe(r, cfg)
        last = len(rec['inputs']) + sum(netgen._n_out(L) for L in rec['layers']) - 1
        # shape of the last value
        src = netgen.build(rec)[1]['values'][last]
        shp = list(src['shape'])
        if len(shp) != 4:
            continue
        _, H, W, Cc = shp
        cands = [[1, H * W, 1, Cc], [1, W, H, Cc], [1, 1, 1, H * W * Cc], [1, H, W * Cc, 1], [1, 1, H * W, Cc]]
        if Cc % 2 == 0:
            cands.append([1, H, W * 2, Cc // 2])
        new = r.choice([c for c in cands if c != shp and max(c) < 65536] or [shp])
        rec['layers'].append(dict(op='RESHAPE', shape=new, seed=1, **{'in': [last]}))
        if r.random() < 0.5:
            # a consumer behind the reshape keeps it inside the NPU subgraph
            rec['layers'].append(dict(op='RELU', seed=2, **{'in': [last + 1]}))
            rec['outputs'] = [last + 2]
        else:
            rec['outputs'] = [last + 1]
        opts, _ = netgen.gen_options(r)
        descs.append((fam, dict(recipe=rec, opts=opts, seed=i, n_inputs=2, tags=False, n_swarm=2, extremes=False)))
stats = collections.Counter(); bad = []
for chk_id in ("C03", "C01", "C13"):
    chk = registry.get(chk_id)
    res = C.ForkPool(timeout=120).run(chk.run_case, [d for _, d in descs])
    for (fam, d), (st, val) in zip(descs, res):
        if st != 'ok':
            stats[(chk_id, fam, 'harness')] += 1; continue
        vs = [v for v in (val.get('viol') or []) if v.get('prop') in ('C01', 'C02', 'C03', 'C13', 'C10', 'C12')]
        stats[(chk_id, fam, 'viol' if vs else 'ok')] += 1
        if vs:
            bad.append((chk_id, fam, d, vs[0]))
for k in sorted(stats):
    if k[2] != 'ok':
        print(k, stats[k])
print('cases', len(descs), 'violating', len(bad))
seen = set()
for chk_id, fam, d, v in bad:
    key = (fam, v.get('oracle'), tuple(L['op'] for L in d['recipe']['layers']))
    if key in seen:
        continue
    seen.add(key)
    print(chk_id, fam, v.get('prop'), v.get('oracle'), v.get('kind'), [L['op'] for L in d['recipe']['layers']], d['opts'][:2], str(v.get('msg') or v.get('site') or '')[:80])
json.dump([dict(check=c_, case=d, violation={k: x for k, x in v.items() if k != 'layers'}) for c_, f, d, v in bad[:60]], open('/verif/.scratch/reshape_sweep_bad.json', 'w'))
