#!/usr/bin/env python3
"""Regenerates /verif/known_findings.json from the compact table below (run by hand when a finding is added; never at check time)."""
import json
KINDS = ["POOL/MAX", "POOL/AVERAGE", "POOL/REDUCE_SUM", "CONV", "DEPTHWISE", "ELEMENTWISE/ADD", "ELEMENTWISE/SUB", "ELEMENTWISE/MUL",
         "ELEMENTWISE/MIN", "ELEMENTWISE/MAX", "ELEMENTWISE/ABS", "ELEMENTWISE/LRELU", "ELEMENTWISE/SHL", "ELEMENTWISE/SHR", "ELEMENTWISE/CLZ"]
SLICES = ["STRIDED_SLICE", "SPLIT", "SLICE"]
FAM = {
 "F01-softmax-slice-input": dict(
    what="SOFTMAX whose input is a slice view (STRIDED_SLICE/SPLIT output): softmax.py rebuilds its passes from the parent tensor and drops the read offset/shape, so the NPU reads outside the slice (outside the scratch extent / undefined bytes)",
    ctx=dict(requires_layers=["SOFTMAX"], requires_any=SLICES),
    sigs={"C02": ["out_of_extent"], "C03": ["uninit_read", "foreign_read"], "C04": ["reads_from_divergence", "async_uninit_read", "final_memory_divergence"]}),
 "F02-mean-unit-axis-memcpy": dict(
    what="MEAN over an axis of extent 1 fed by a slice view is lowered to Memcpy (tflite_graph_optimiser.py:2283); dma_feature_map_if_necessary copies the whole parent tensor, overruns the destination / scratch extent and never writes the real output",
    ctx=dict(requires_layers=["MEAN"], requires_any=SLICES),
    sigs={"C02": ["out_of_extent"], "C03": ["npu_output_not_fully_written", "uninit_read"], "C04": ["final_memory_divergence", "reads_from_divergence"]}),
 "F03-reshape-folded-into-producer": dict(
    what="an operator followed by RESHAPE whose shapes are recomputed after the reshape was bypassed (LUT activations, 2x-upscaling resize steps): the OFM takes the reshaped shape while the IFM registers still describe the original tensor, so elements beyond IFM_WIDTH0/HEIGHT0 are fetched through the unused tile bases",
    ctx=dict(requires_layers=["RESHAPE"], max_layers=4),
    sigs={"C02": ["out_of_extent"], "C03": ["uninit_read", "foreign_read"], "C04": ["reads_from_divergence", "async_uninit_read", "final_memory_divergence"]}),
 "F04-resize-bilinear-hpc-blockdep": dict(
    what="RESIZE_BILINEAR with half_pixel_centers: the 2x2 depthwise steps read one row/column more than npu_op.ifm.shape (edge replication through the tile bases); calc_blockdep clips its first-job IFM volume to ifm.shape, misses the overlap with the producer's last OFM block and programs BLOCKDEP too large",
    ctx=dict(requires_layers=["RESIZE_BILINEAR"], max_layers=3, kind_any=["DEPTHWISE"]),
    sigs={"C04": ["async_uninit_read", "reads_from_divergence"]}),
 "F06-slice-offset-scaled-by-stride": dict(
    what="a strided (stride>1) or padded pool/conv that reads through a fused slice offset: Box.transform_with_strides_and_skirt adds the read offset before multiplying by the stride (high_level_command_stream.py:66-101); the IFM box handed to the register generator is wrong (even zero-sized), addresses and BLOCKDEP derived from it are wrong",
    ctx=dict(requires_any=SLICES, max_layers=6, kind_any=["POOL/MAX", "POOL/AVERAGE", "CONV", "DEPTHWISE"]),
    sigs={"C02": ["out_of_extent"], "C03": ["uninit_read", "foreign_read"], "C04": ["reads_from_divergence", "async_uninit_read"]}),
}
FIXED = [
 "fixed: property=C13 54fac24 every network with weights aborted with OverflowError (int32 memory histogram minus 1<<32 under NumPy 2), live_range.py:149 / scheduler.py:667",
 "fixed: property=C13 325e4e3 every network with HARD_SWISH aborted with OverflowError (np.int16 + 1<<15 under NumPy 2), tflite_graph_optimiser.py:1549",
 "fixed: property=C13 8eda2bb every MEAN lowered to convolutions aborted with OverflowError (np.int32 num_elements_in_axis), tflite_graph_optimiser.py:2309/2449",
 "fixed: property=C12 3e245fc elementwise operator executed in place over an NPU-subgraph input (produced by a CPU operator) that a later subgraph still reads: CONV_2D(stride 4, CPU) -> MINIMUM(NPU) -> CUSTOM(CPU) ; RELU of the conv output in a second NPU subgraph (findings/F05-inplace-elementwise-shared-input.C12.json)",
]
EXTRA = [
 dict(id="F06-slice-offset-scaled-by-stride", property="C13", status="known",
      signature={"oracle": "internal_exception", "exc_type": "AssertionError", "site": "high_level_command_stream.py:__init__"}, requires_any=SLICES,
      what="same root cause as F06: the mis-scaled slice offset makes the IFM box end before it starts and Box.__init__ asserts (compilation dies with AssertionError)",
      example="findings/F06-slice-offset-scaled-by-stride.C13.json"),
 dict(id="F06-slice-offset-scaled-by-stride", property="C13", status="known",
      signature={"oracle": "internal_exception", "exc_type": "AssertionError", "site": "tensor.py:address_for_coordinate"}, requires_any=SLICES,
      what="same root cause as F06: the mis-scaled slice offset produces a coordinate outside the tensor and address_for_coordinate asserts",
      example="findings/F06-slice-offset-scaled-by-stride.C13b.json"),
 dict(id="F07-pad-then-mean", property="C13", status="known",
      signature={"oracle": "internal_exception", "exc_type": "AssertionError", "site": "tensor.py:address_for_coordinate"}, requires_layers=["PAD", "MEAN"],
      what="PAD followed by MEAN over H and W: the explicit padding is fused into the depthwise/pool operator MEAN is lowered to, whose IFM box is then computed for the padded extent and address_for_coordinate asserts",
      example="findings/F07-pad-then-mean.C13.json"),
 dict(id="F08-resize-nn-align-corners", property="C13", status="known",
      signature={"oracle": "internal_exception", "exc_type": "ValueError", "site": "tflite_graph_optimiser.py:convert_resizenn_ac_to_depthwise_conv"},
      requires_any=["RESIZE_NEAREST_NEIGHBOR"],
      what="RESIZE_NEAREST_NEIGHBOR with align_corners and more than one channel: convert_resizenn_ac_to_depthwise_conv reshapes upscale*upscale weight values into a [u,u,C,C] tensor (tflite_graph_optimiser.py:384-404) and numpy raises ValueError",
      example="findings/F08-resize-nn-align-corners.C13.json"),
]
def main():
    import os
    out = []
    for fid, f in FAM.items():
        for prop, oracles in f["sigs"].items():
            for o in oracles:
                e = dict(id=fid, property=prop, status="known", signature={"oracle": o}, what=f["what"])
                e.update(f["ctx"])
                ex = f"findings/{fid}.{prop}.json"
                if os.path.exists("/verif/" + ex):
                    e["example"] = ex
                out.append(e)
    extra = json.load(open("/verif/known_findings_extra.json")) if os.path.exists("/verif/known_findings_extra.json") else {"findings": [], "fixed": []}
    doc = {"comment": "Genuine defects of the pinned tree recorded (not repaired).  Never written at run time.  A finding suppresses only violations whose signature AND minimised context (layer kinds, size, op kind) match; anything else of the same property is still reported.  'fixed' lines suppress nothing.",
           "findings": out + EXTRA + extra["findings"], "fixed": FIXED + extra["fixed"]}
    json.dump(doc, open("/verif/known_findings.json", "w"), indent=1)
    print(len(doc["findings"]), "entries")
main()
