#!/usr/bin/env python3
"""Regenerates /verif/known_findings.json from the compact table below (run by hand when a finding is added; never at check time)."""
import json
KINDS = ["POOL/MAX", "POOL/AVERAGE", "POOL/REDUCE_SUM", "CONV", "DEPTHWISE", "ELEMENTWISE/ADD", "ELEMENTWISE/SUB", "ELEMENTWISE/MUL",
         "ELEMENTWISE/MIN", "ELEMENTWISE/MAX", "ELEMENTWISE/ABS", "ELEMENTWISE/LRELU", "ELEMENTWISE/SHL", "ELEMENTWISE/SHR", "ELEMENTWISE/CLZ"]
SLICES = ["STRIDED_SLICE", "SPLIT", "SLICE"]
VAL = ["value_mismatch", "garbage_dependent_output", "gap_uninit_read", "gap_async_uninit_read", "gap_unwritten_output_consumed"]
FAM = {
}
FIXED = [
 "fixed: property=C13 54fac24 every network with weights aborted with OverflowError (int32 memory histogram minus 1<<32 under NumPy 2), live_range.py:149 / scheduler.py:667",
 "fixed: property=C13 325e4e3 every network with HARD_SWISH aborted with OverflowError (np.int16 + 1<<15 under NumPy 2), tflite_graph_optimiser.py:1549",
 "fixed: property=C13 8eda2bb every MEAN lowered to convolutions aborted with OverflowError (np.int32 num_elements_in_axis), tflite_graph_optimiser.py:2309/2449",
 "fixed: property=C13 a7da073 --subgraph-output aborted with AttributeError on an operator without bias (None optional input), nn_graph.py:print_npu_graph",
 "fixed: property=C13 e607f85 --show-cpu-operations aborted with AttributeError on an operator without bias, stats_writer.py:format_tens_list",
 "fixed: property=C13 efd32d6 ARG_MAX placed on the NPU aborted with OverflowError under NumPy 2, tflite_graph_optimiser.py:convert_argmax_to_depthwise_conv_and_max_pool",
 "fixed: property=C13 0b88190 RESIZE with align_corners and a unit IFM height/width aborted with ValueError/OverflowError (division by zero), tflite_supported_operators.py:constraint_resize",
 "fixed: property=C13 c961fbe TRANSPOSE of a tensor without quantisation parameters aborted with AttributeError, register_command_stream_generator.py:generate_ofm_scaling_for_pooling (findings/FX-transpose-noquant.C13.json)",
 "fixed: property=C02 132d556 single (non double-buffered) weight buffer sized for the even depth slices only: the DMA of a larger odd slice overran the published fast-scratch extent; CONV_2D 7x7 dil 2, 256->32 ch, ethos-u65-512 Dedicated_Sram --arena-cache-size 109605 (findings/FX-single-weight-buffer.C02.json)",
 "fixed: property=C03 b9658ce reused 1 KiB lookup table got LUT index offset//1024 instead of offset//256: LOGISTIC ; SOFTMAX ; SOFTMAX on ethos-u55-128 read an SHRAM slot that was never loaded (findings/FX-lut-index-reuse.C03.json)",
 "fixed: property=C04 e152318 BLOCKDEP one too large after a producer whose last OFM block is needed by the second job of a kernel with asymmetric padding (top != right): AVERAGE_POOL_2D 1x1 ; AVERAGE_POOL_2D 2x2 SAME on 1x51x12x4, ethos-u55-128 (register_command_stream_util.py:508 used padding.right for the row offset; findings/FX-blockdep-padding-right.C04.json)",
 "fixed: property=C14 6b67d8d main(A);main(B) / convert(A);convert(B) in one process died with AssertionError 'Two different addresses cannot be assigned to the same tensor' when A and B share a LUT, and main(A);main(A) produced a different output file (MEAN / TANH / RESIZE_BILINEAR network): TensorAddressMap, lru-cached equivalence ids and CompressedWeightCache survived a compilation",
 "fixed: property=C18 651e96b '--config Arm/vela.ini' (documented example) rejected with 'Section ... not found' unless the working directory contains Arm/vela.ini; a decoy Arm/vela.ini in the working directory was used instead of the bundled one (vela.py passed args.config instead of the resolved paths)",
 "fixed: property=C18 4b72eeb arena_cache_size of the selected memory mode ignored (option default 393216 always 'overrode' the file; out-of-range file values accepted silently)",
 "fixed: property=C01 ab37afd a slice of a slice (STRIDED_SLICE ; STRIDED_SLICE ; any NPU consumer, or SPLIT output sliced again) lost one of the two read offsets/shapes: move_splitsliceread_to_consumer overwrote the consumer's own read offset, so the consumer read the wrong window and depth (conv weights encoded for 6 input channels while IFM_DEPTH said 28) (findings/FX-slice-of-slice.C01.json)",
 "fixed: property=C01 8235dbe CONV_2D with stride 2 and dilation 2 as first operator of a network (IFM depth * stride <= 8): fixup_strided_conv folded IFM/filter columns into the depth but kept the dilation, sampling the wrong columns (findings/FX-strided-conv-dilation.C01.json)",
 "fixed: property=C01 130e17a HARD_SWISH lookup table wrong by far more than one step for inputs in the upper half of the range: shift_left16/32 wrapped in int16/int32 before the saturation test under NumPy 2 (findings/FX-hard-swish-saturating-shift.C01.json)",
 "fixed: property=C10 9ba163c <operator> ; STRIDED_SLICE ; RELU-family: the activation (carrying the fused slice read) was packed into the producer's pass, which then wrote only the sliced OFM shape from its own origin - the recorded stripes did not cover the operator's output and the values were those of the wrong window (findings/FX-relu-after-slice-packed.C10.json)",
 "fixed: property=C10 741f1fd (was known finding F06) a strided (stride>1) or padded convolution / pooling reading through a fused SPLIT/SLICE: transform_with_strides_and_skirt multiplied the read offset by the stride and padded against the whole tensor; wrong IFM window, reads outside the extent, undefined bytes, and AssertionError in Box.__init__ / address_for_coordinate (findings/F06-slice-offset-scaled-by-stride.*.json replay it on the parent commit)",
 "fixed: property=C01 36dfbd4 STRIDED_SLICE ; FULLY_CONNECTED: the slice read was moved onto an operator that reads its input flattened, wrong elements were read (findings/FX-slice-then-fully-connected.C01.json)",
 "fixed: property=C10 4c34a7c STRIDED_SLICE/SPLIT along H ; TRANSPOSE_CONV (or nearest resize): the upscaling factor of the stripe was OFM height // height of the whole IFM tensor (0 for a short slice), giving an empty IFM box and wrong values (findings/FX-sliced-transpose-conv-upscaling.C10.json)",
 "fixed: property=C12 3e245fc elementwise operator executed in place over an NPU-subgraph input (produced by a CPU operator) that a later subgraph still reads: CONV_2D(stride 4, CPU) -> MINIMUM(NPU) -> CUSTOM(CPU) ; RELU of the conv output in a second NPU subgraph (findings/F05-inplace-elementwise-shared-input.C12.json)",
 "fixed: property=C01 36dfbd4 (was known finding F01) SOFTMAX (and any operator that reads its input in another shape) fed by a STRIDED_SLICE/SPLIT view lost the read offset; accesses outside the extent, undefined bytes, wrong values (findings/FX-F01-softmax-slice-input.C02.json)",
 "fixed: property=C01 77b4a5e (was known findings F14 F15 F18) a RELU-family operator packed into a pass whose operation already had an activation (fused clamp or lookup table lost) or whose output quantisation carries a rescale (ABS, elementwise LEAKY_RELU: clamp quantised with the wrong scale) (findings/FX-F14-relu-after-lut-activation.C10.json, FX-F15-second-clamp-replaces-first.C01.json, FX-F18-relu-after-abs.C01.json)",
 "fixed: property=C01 7a986b9 (was known finding F16) RELU-family after QUANTIZE: OFM zero point added twice to the activation range of the rescaling average pool (findings/FX-F16-relu-after-requantise.C10.json)",
 "fixed: property=C04 fdca9c0 BLOCKDEP after a TRANSPOSE (OFM written with swapped strides): calc_blockdep compared producer OFM blocks and consumer IFM blocks by coordinate although the coordinates name different bytes; the consumer could start three blocks early",
 "fixed: property=C13 b2e2e47 (was known finding F08) RESIZE_NEAREST_NEIGHBOR with align_corners and more than one channel aborted with ValueError (depthwise weight tensor built as [u,u,C,C]) (findings/FX-F08-resize-nn-align-corners.C13.json)",
 "fixed: property=C04 1047983 (was known finding F13) BLOCKDEP too large in front of REDUCE_SUM (IFM block depth taken as the OFM depth 1): second REDUCE_SUM of a SOFTMAX read the output of its producer early (findings/FX-F13-reduce-sum-blockdep.C04.json)",
 "fixed: property=C01 cde3b2b (was known finding F15) two stand-alone RELU-family operators in a row were packed into one pass and the last clamp replaced the first",
 "fixed: property=C03 92fd28e (was known finding F03) LUT activations and resize lowerings recomputed the operator shapes from the tensors after a RESHAPE next to the operator had been bypassed: OFM in the reshaped shape over an IFM described in the original one (wrong elements, accesses outside the tensor, AssertionError in generate_ifm2_broadcast) (findings/FX-F03-reshape-folded-into-producer.C02.json .C03.json .C04.json .C13.json)",
 "fixed: property=C01 e296b46 (was known finding F02b) MEAN over axes of extent 1 with different input and output quantisation became a plain copy (requantisation lost)",
 "fixed: property=C01 34f41e3 int32 partial sums of a lowered MEAN written with the OFM zero point and read back with zero point 0 (result off by zero_point*scale/elements)",
 "fixed: property=C01 3db9822 ADD/SUB rescale factors computed in float32 under NumPy 2 (low 7 bits lost; off by one on rounding boundaries)",
 "fixed: property=C10 f9e6da2 bottom padding of a stripe of an operator whose OFM is taller than its IFM (fused PAD): rows counted after clipping to the IFM height",
 "fixed: property=C11 6450512 CPU-resident convolution-like operator without bias written back with an additional -1 input (TRANSPOSE_CONV with four inputs)",
 "fixed: property=C01 186fbbb RESHAPE of a subgraph input (Memcpy) ; RELU-family: the activation was packed into the DMA pass and never applied",
 "fixed: property=C10 ec1302a (was known finding F17) IFM box of a stripe with stride > 1 ended at ofm_end*stride + skirt, more than the last window reads; in a cascade the producer ran further ahead than the rolling buffer holds and overwrote unread rows (findings/FX-F17-cascade-overfetch-clobbers-rolling-buffer.C10.json)",
 "fixed: property=C13 3d0ce8b weights limit check broadcast per-channel zero points of depthwise weights over the wrong axis (MemoryError for many channels, wrong sum)",
 "fixed: property=C13 cc03b38 RESIZE_BILINEAR half_pixel_centers reading a fused SPLIT/SLICE aborted with IndexError in extract_subgraph",
 "fixed: property=C02 dd159c1 (was known finding F02) a Memcpy (RESHAPE of a shared tensor, MEAN over unit axes) took over a fused slice read and copied from the start of the whole tensor: accesses outside the destination / scratch extent (findings/FX-F02-mean-unit-axis-memcpy.C02.json)",
 "fixed: property=C03 37324e6 RELU with differing input and output scaling next to a bypassed RESHAPE: inserted average pool recomputed its shapes from the tensors (same class as 92fd28e)",
 "fixed: property=C13 766b4ac RESIZE_NEAREST_NEIGHBOR align_corners in front of a bypassed RESHAPE: kernel sized from the depth of the reshaped OFM tensor (same class as 92fd28e)",
 "fixed: property=C03 0eb36a3 MEAN in front of a bypassed RESHAPE: the int32 partial-sum tensors took the reshaped shape of the OFM tensor, the depthwise convolution described its IFM with it and read undefined bytes (same class as 92fd28e); this was the cause of the former known findings F11 / F11b, whose examples all had a RESHAPE behind the MEAN (findings/FX-mean-behind-bypassed-reshape.C03.json, FX-F11-mean-over-width-only.C04.json, FX-F11b-mean-over-width-only.C01.json)",
 "fixed: property=C12 c7adebd two CPU-resident memory only operators in a row (RESHAPE ; RESHAPE at the end of a network) were packed into one pass; the tensor between them got no live range and was published at arena offset 0 on top of a live tensor (findings/FX-two-cpu-reshapes-unallocated.C12.json)",
 "fixed: property=C03 a42dec3 PRELU (general lowering to MIN/MUL/RELU/ADD or MUL/MAX) in front of a bypassed RESHAPE: new operations and intermediate tensors took the reshaped shape of the OFM tensor (same class as 92fd28e); reads of undefined bytes and of bytes written as another tensor (findings/FX-prelu-behind-bypassed-reshape.C03.json)",
 "fixed: property=C10 56354b4 (was known finding F09) a 2x nearest-neighbour upscaling operation at the end of a cascade was striped with odd stripe heights: later stripes start on an odd OFM row (the hardware pairs rows from the stripe start, wrong rows are replicated) and the last IFM row of a stripe lies outside its IFM box (fetched through an unused tile base: undefined bytes, accesses outside the extent, DMA/kernel conflicts) (findings/FX-F09-odd-stripe-nearest-upscale.C03.json, .C04-dma.json, FX-F09-odd-final-stripe-nearest-upscale.C01.json)",
 "fixed: property=C03 2d50067 LEAKY_RELU lowered to elementwise operations (int16, or alpha outside (0,1)) in front of a bypassed RESHAPE: new operations and intermediate tensors took the reshaped shape of the OFM tensor (same class as 92fd28e) (findings/FX-leaky-relu-behind-bypassed-reshape.C03.json)",
 "fixed: property=C03 c32b0f9 TRANSPOSE ; lookup-table activation (HARD_SWISH, ...) ; consumer: the activation fused into the transposing pool replaced its output tensor, the linear-format / full-buffer requirement was lost, the column-wise written OFM went through a cascade rolling buffer and the consumer read undefined bytes (findings/FX-transpose-fused-activation-cascaded.C03.json)",
 "fixed: property=C11 449d738 ARG_MAX on the NPU appended a unit dimension to the shape of its output tensor: a network output [1,H,W] was published as [1,H,W,1] (findings/FX-argmax-output-rank.C11.json)",
 "fixed: property=C03 ce780e7 SQUARED_DIFFERENCE whose first operand is the smaller (broadcast) one, e.g. a constant 1x1xWxC: int32 intermediates cloned from that operand were allocated too small and overlapped live tensors (findings/FX-squared-difference-broadcast-const.C03.json)",
 "fixed: property=C13 3a3b97c LOG / SQRT (int8 and int16 lookup tables) with a zero point that makes some dequantised input negative aborted with ValueError: math domain error (findings/FX-sqrt-table-domain-error.C13.json)",
 "fixed: property=C13 f041534 AssertionError Allocation exceeds staging limit (scheduler.use_fast_storage_for_feature_maps) when the tensors that cannot leave fast storage alone exceed a small --arena-cache-size, e.g. RESIZE / TRANSPOSE / CONCATENATION network on ethos-u55-64 with --arena-cache-size 12957 (findings/FX-staging-limit-assertion.C13.json)",
 "fixed: property=C01 6aec2b8 PAD ; AVERAGE_POOL_2D with a fused RELU-family activation (explicit padding, converted to a depthwise convolution with the zero point in the bias and OFM zero point 0): the clamp was computed without the zero point, RELU cut at code 0 instead of at the zero point (findings/FX-pad-avgpool-relu-clamp.C01.json)",
 "fixed: property=C11 f662831 (was known finding F12) a RESIZE whose output size equals its input size was removed as Identity and its output tensor replaced by the input tensor: a network output was published under another name (findings/FX-F12-identity-resize-renames-output.C11.json)",
 "fixed: property=C13 68691cf (was known finding F07) PAD ; MEAN over H and W: the explicit padding was fused into the depthwise convolution MEAN had been lowered to, whose read offset/shape refer to the padded tensor; AssertionError in tensor.address_for_coordinate (findings/FX-F07-pad-then-mean.C13.json)",
 "fixed: property=C04 f2e4106 (was known finding F04) RESIZE_BILINEAR with half_pixel_centers: the first 2x2 depthwise step replicates the first row/column through its tile registers; calc_blockdep compared blocks by coordinate, missed the producer's last OFM block and programmed BLOCKDEP too large (read of not yet written rows under asynchronous schedules) (findings/FX-F04-resize-bilinear-hpc-blockdep.C04.json)",
 "fixed: property=C01 5eafae1 AVERAGE_POOL_2D with stride 4 on more than one channel (converted to Conv2D): unit weights of shape [h,w,1,C] for a convolution over C input channels; the weight stream holds a fraction of what the operation fetches (weight_stream_malformed, wrong values) (findings/FX-avgpool-stride4-conv-weights.C01.json)",
 "fixed: property=C02 f93cdf6 AVERAGE_POOL_2D with stride 4 (converted to a convolution) in front of a bypassed RESHAPE: shapes recomputed from the tensors (same class as 92fd28e), the convolution read rows outside its IFM and outside the scratch extent (findings/FX-avgpool-stride4-behind-bypassed-reshape.C02.json)",
 "fixed: property=C03 594a293 SQUARED_DIFFERENCE in front of a bypassed RESHAPE: int32 intermediates and the final MUL took the reshaped shape (same class as 92fd28e), found by the reshape sweep tools/dev/reshape_sweep.py (findings/FX-squared-difference-behind-bypassed-reshape.C03.json)",
 "fixed: property=C01 7568689 int16 AVERAGE_POOL_2D with stride 4 (converted to a convolution): reduced 16-bit multiplier scaling selected by the default int64 bias; exact average off by one or two steps (findings/FX-int16-avgpool-stride4-reduced-scale.C01.json)",
 "fixed: property=C04 353b244 RESIZE_BILINEAR half_pixel_centers behind a striped producer (cascade under --optimise Size): the depthwise step following the producer stripe that writes the last IFM row got BLOCKDEP 3; the IFM shape is one row/column short of what the edge replication reads, so not even the address overlap was seen (completes f2e4106) (findings/FX-resize-bilinear-hpc-blockdep-striped.C10.json)",
 "fixed: property=C13 50917e0 SQUARED_DIFFERENCE with a constant operand whose lowered operations end up in two Ethos-U operators: an int32 intermediate cloned from the constant kept its values and tripped an assertion in tflite_writer.serialise_tensor (findings/FX-squared-difference-const-clone-values.C13.json)",
 "fixed: property=C10 6e136dc PAD ; RESHAPE ; convolution with VALID padding: the PAD was replaced by hardware padding although a bypassed RESHAPE sits between them (reads outside the tensor / undefined bytes, wrong values) (findings/FX-pad-reshape-conv-hw-padding.C10.json)",
]
EXTRA = [
 dict(id="F19-non-default-allocator-exceeds-arena-cache", property="C02", status="known",
      signature={"oracle": "fast_scratch_exceeds_arena_cache", "rounding_only": False, "min_schedule_also_exceeds": False},
      requires_any=["OPT_ALLOC_Greedy", "OPT_ALLOC_LinearAlloc"],
      what="Dedicated_Sram with --tensor-allocator Greedy or LinearAlloc: the scheduler plans against the arena cache size with its own (hill-climb like) estimate, the chosen allocator then needs more, and the output is published with a fast-scratch tensor larger than the configured cache after only 'Warning: SRAM target for arena memory area exceeded' (compiler_driver._check_schedule); accesses beyond the cache are rejected by check_mem_limits, a larger published extent is not (e.g. cache 8192, Greedy publishes 8240, HillClimb 7488)",
      example="findings/F19-non-default-allocator-exceeds-arena-cache.C02.json"),
 dict(id="F10-fast-scratch-rounded-past-cache", property="C02", status="known",
      signature={"oracle": "fast_scratch_exceeds_arena_cache", "rounding_only": True},
      what="--arena-cache-size that is not a multiple of 16 in a Dedicated_Sram mode: the allocator keeps the fast scratch within the limit but the published tensor size is rounded up to the next multiple of 16, i.e. up to 15 bytes past the configured cache size",
      example="findings/F10-fast-scratch-rounded-past-cache.C02.json"),
]
def main():
    import os
    out = []
    for fid, f in FAM.items():
        for prop, oracles in f["sigs"].items():
            for o in oracles:
                e = dict(id=fid, property=prop, status="known", signature={"oracle": o}, what=f["what"])
                e.update(f["ctx"])
                ex = f"findings/{fid}.{prop}.json"
                if os.path.exists("/verif/" + ex):
                    e["example"] = ex
                out.append(e)
    extra = json.load(open("/verif/known_findings_extra.json")) if os.path.exists("/verif/known_findings_extra.json") else {"findings": [], "fixed": []}
    doc = {"comment": "Genuine defects of the pinned tree recorded (not repaired).  Never written at run time.  A finding suppresses only violations whose signature AND minimised context (layer kinds, size, op kind) match; anything else of the same property is still reported.  'fixed' lines suppress nothing.",
           "findings": out + EXTRA + extra["findings"], "fixed": FIXED + extra["fixed"]}
    json.dump(doc, open("/verif/known_findings.json", "w"), indent=1)
    print(len(doc["findings"]), "entries")
main()
