#!/bin/sh
# usage: run_seeded_wt.sh <worktree with the change applied> <check id> [seed]   -- runs a check against another tree (no change to /repo)
WT=$1; CHK=$2; SEED=${3:-1}
cd /verif && VERIF_REPO=$WT VERIF_EVIDENCE_DIR=/verif/.scratch/evidence_seeded VERIF_SEED=$SEED ./vcheck $CHK --tier quick > .scratch/logs/wt.$(basename $WT).$CHK.$SEED.log 2>&1; rc=$?
echo "tree=$(basename $WT) check=$CHK seed=$SEED rc=$rc violations=$(grep -c '^VIOLATION' .scratch/logs/wt.$(basename $WT).$CHK.$SEED.log) $(grep 'ran=' .scratch/logs/wt.$(basename $WT).$CHK.$SEED.log | cut -c1-120)"
