#!/bin/sh
# usage: tools/collect_seeded.sh <id>  -- takes patch.diff demo.py meta.json of a finished sub-agent from /tmp/wt/<id>_out into seeded/<id>/,
# removes the agent's worktree, validates the change against /repo HEAD in a fresh scratch worktree (tools/validate_seeded.sh)
cd "$(dirname "$0")/.."
ID=$1
mkdir -p seeded/$ID
for f in patch.diff demo.py meta.json; do cp /tmp/wt/${ID}_out/$f seeded/$ID/ || exit 2; done
git -C /repo worktree remove --force /tmp/wt/$ID 2>/dev/null
tools/validate_seeded.sh $ID /verif/seeded/$ID 2>&1 | grep -v conda
