#!/bin/sh
# run every registered check at one seed/tier; prints one line per check
# usage: tools/run_all.sh <seed> [quick|thorough] [ids...]
cd "$(dirname "$0")/.."
seed=${1:-1}; tier=${2:-quick}; shift; shift
ids="$@"; [ -z "$ids" ] && ids=$(/venv/bin/python -c "import json;print(' '.join(c['property_id'] for c in json.load(open('MANIFEST.json'))['checks']))")
mkdir -p .scratch/logs
for id in $ids; do
  s=$(date +%s)
  VERIF_SEED=$seed ./vcheck $id --tier $tier > .scratch/logs/$id.$seed.$tier.log 2>&1; rc=$?
  e=$(date +%s)
  echo "$id seed=$seed tier=$tier rc=$rc secs=$((e-s)) viol=$(grep -c '^VIOLATION' .scratch/logs/$id.$seed.$tier.log) known=$(grep -c '^KNOWN-FINDING' .scratch/logs/$id.$seed.$tier.log)"
done
