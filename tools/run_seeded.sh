#!/bin/sh
# usage: run_seeded.sh <seeded id> <check id> [vcheck args...]   -- applies the seeded change to /repo, runs the check, undoes it
ID=$1; CHK=$2; shift 2
git -C /repo diff --quiet || { echo "/repo has local changes"; exit 2; }
git -C /repo apply /verif/seeded/$ID/patch.diff || exit 2
( cd /verif && VERIF_EVIDENCE_DIR=/verif/.scratch/evidence_seeded ./vcheck $CHK "$@" ); RC=$?
git -C /repo checkout -- .
echo "seeded=$ID check=$CHK exit=$RC"
