#!/usr/bin/env python3
"""Run the repository's pinned baseline with the verification guard OFF and compare with
/root/.vp/BASELINE.json: every test of stable_pass must still pass.  Exit 0 iff so."""
import json, os, subprocess, sys, tempfile
import xml.etree.ElementTree as ET

def main():
    base = json.load(open("/root/.vp/BASELINE.json"))
    env = dict(os.environ)
    env.pop("ETHOS_U_VELA_VERIF", None)
    with tempfile.TemporaryDirectory() as d:
        xmlf = os.path.join(d, "junit.xml")
        cmd = base["cmd"].replace("<file>", xmlf)
        repo = os.environ.get("VERIF_REPO")
        if repo:
            cmd = cmd.replace("cd /repo", "cd " + repo)
            env["PYTHONPATH"] = repo
        p = subprocess.run(cmd, shell=True, env=env, stdout=subprocess.PIPE, stderr=subprocess.STDOUT, text=True)
        passed = set()
        for tc in ET.parse(xmlf).getroot().iter("testcase"):
            if not any(ch.tag in ("failure", "error", "skipped") for ch in tc):
                passed.add(f"{tc.get('classname')}::{tc.get('name')}")
    want = base["stable_pass"]
    missing = [t for t in want if t not in passed]
    print(f"baseline: {len(want) - len(missing)}/{len(want)} stable tests pass; pytest rc={p.returncode}")
    for t in missing[:20]:
        print("  NOT PASSING:", t)
    return 1 if missing else 0

if __name__ == "__main__":
    sys.exit(main())
