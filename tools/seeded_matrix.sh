#!/bin/sh
# usage: tools/seeded_matrix.sh <seed> "<seeded ids>" "<check ids>"   -- each seeded change x each check (quick tier); prints one line each
cd "$(dirname "$0")/.."
seed=$1
for m in $2; do for c in $3; do
  VERIF_SEED=$seed VERIF_EVIDENCE_DIR=/verif/.scratch/evidence_seeded tools/run_seeded.sh $m $c --tier quick > .scratch/logs/mut.$m.$c.$seed.log 2>&1
  echo "seeded=$m check=$c seed=$seed $(grep -c '^VIOLATION' .scratch/logs/mut.$m.$c.$seed.log) violations; $(tail -1 .scratch/logs/mut.$m.$c.$seed.log)"
done; done
