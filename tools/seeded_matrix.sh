#!/bin/sh
# usage: tools/seeded_matrix.sh [seed]  -- every kept seeded change against the check of its property (scratch worktrees, quick tier)
cd "$(dirname "$0")/.."
SEED=${1:-1}
for d in seeded/C*; do
  id=$(basename $d)
  p=$(/venv/bin/python -c "import json;print(json.load(open('$d/meta.json'))['property'])")
  tools/seeded_wt.sh $id $SEED $p 2>&1 | grep -v conda | cut -c1-160
done
