#!/bin/sh
# usage: tools/seeded_wt.sh <seeded id> <seed> <check ids...>  -- applies seeded/<id>/patch.diff to a scratch worktree of /repo HEAD
# (never to /repo itself), runs the quick tier of each check against it with VERIF_REPO, removes the worktree
cd "$(dirname "$0")/.."
ID=$1; SEED=$2; shift 2; VROOT=$PWD
WT=/tmp/wt/run_$ID
git -C /repo worktree remove --force $WT 2>/dev/null
git -C /repo worktree add -q --detach $WT HEAD || exit 2
( cd $WT && git apply $VROOT/seeded/$ID/patch.diff ) || { echo "seeded=$ID patch does not apply"; git -C /repo worktree remove --force $WT; exit 2; }
mkdir -p .scratch/logs .scratch/evidence_seeded
for c in "$@"; do
  VERIF_REPO=$WT VERIF_EVIDENCE_DIR=$PWD/.scratch/evidence_seeded VERIF_SEED=$SEED ./vcheck $c --tier quick > .scratch/logs/mut.$ID.$c.$SEED.log 2>&1; rc=$?
  echo "seeded=$ID check=$c seed=$SEED rc=$rc violations=$(grep -c '^VIOLATION' .scratch/logs/mut.$ID.$c.$SEED.log) known=$(grep -c '^KNOWN' .scratch/logs/mut.$ID.$c.$SEED.log) | $(grep 'ran=' .scratch/logs/mut.$ID.$c.$SEED.log | cut -c1-110)"
done
git -C /repo worktree remove --force $WT
